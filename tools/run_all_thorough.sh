#!/bin/bash
# tools/run_all_thorough.sh : every registered thorough command once (VERIF_SEED as given, default 1); summary lines only.
# Evidence of the thorough tier is copied to evidence-thorough/ (the committed evidence/ stays the quick tier's, which `vp check` re-runs).
cd "$(dirname "$0")/.."
rc_all=0
mkdir -p evidence-thorough
for id in C01 C02 C03 C04 C05 C06 C07 C08 C09 C10 C11 C12 C13 C15 C16 C20; do
  out=$(VERIF_SEED=${VERIF_SEED:-1} ./check $id --tier thorough 2>&1); rc=$?
  echo "$id rc=$rc $(echo "$out" | grep -E '^runs=|VIOLATION|KNOWN-FINDING|HARNESS' | head -5 | cut -c1-260 | tr '\n' '|')"
  [ -f evidence/$id.json ] && grep -q '"thorough"' evidence/$id.json && cp evidence/$id.json evidence-thorough/$id.json
  [ $rc -ne 0 ] && { rc_all=1; cp -r replays /verif/.work/thorough-replays-$id 2>/dev/null; }
done
exit $rc_all
