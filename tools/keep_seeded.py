#!/venv/bin/python
"""keep_seeded.py <src dir> <seeded id> <property> <caught_by comma list> <needs...>: store a confirmed seeded change under /verif/seeded/<id>/"""
import json, os, shutil, sys
src, sid, prop, caught = sys.argv[1:5]
needs = " ".join(sys.argv[5:])
dst = os.path.join("/verif/seeded", sid)
os.makedirs(dst, exist_ok=True)
for f in ("patch.diff", "demo.py", "notes.md"):
    if os.path.exists(os.path.join(src, f)):
        shutil.copy(os.path.join(src, f), os.path.join(dst, f))
meta = {"id": sid, "property": prop, "origin": "independent sub-agent given only the property text and a scratch worktree",
        "needs_to_manifest": needs,
        "confirmed": "tools/verify_seeded.sh: existing test suite gives the same result with the patch as without (122 passed at the time); demo.py exits 1 with the patch and 0 without",
        "caught_by": [c for c in caught.split(",") if c],
        "how_run": "tools/mutant.sh seeded/%s/patch.diff <ID> (scratch copy of /repo outside /repo and /verif, removed afterwards)" % sid}
json.dump(meta, open(os.path.join(dst, "meta.json"), "w"), indent=1)
print("kept", dst)
