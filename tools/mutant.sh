#!/bin/bash
# tools/mutant.sh <patch.diff> <check args...>: run a check against a scratch copy of /repo with the patch applied.
# The copy lives outside /repo and /verif and is removed afterwards; evidence/replays of the run go to a scratch dir.
set -u
PATCH="$(realpath "$1")"; shift
W="$(mktemp -d /tmp/mofun-mut.XXXXXX)"
trap 'rm -rf "$W"' EXIT
if [ -n "${BASE_COMMIT:-}" ]; then
  mkdir -p "$W/repo" && git -C /repo archive "$BASE_COMMIT" | tar -x -C "$W/repo"     # a patch made against an older commit
else
  rsync -a --exclude .git --exclude '__pycache__' /repo/ "$W/repo/"
fi
( cd "$W/repo" && patch -p1 -s < "$PATCH" ) || { echo "PATCH-FAILED $PATCH"; exit 3; }
mkdir -p "$W/out"
VERIF_REPO="$W/repo" VERIF_OUT="$W/out" "$(dirname "$0")/../check" "$@"
rc=$?
if [ -n "${REPLAY_TOO:-}" ] && [ $rc -eq 1 ]; then
  # the minimised replay file must reproduce the violation in a fresh process (same patched tree)
  rp=$(ls "$W/out/replays/"*.json 2>/dev/null | head -1)
  if [ -n "$rp" ]; then
    VERIF_REPO="$W/repo" VERIF_OUT="$W/out" "$(dirname "$0")/../check" "$1" --replay "$rp" > "$W/replay.log" 2>&1
    rrc=$?
    if [ $rrc -eq 1 ] && grep -q "^VIOLATION" "$W/replay.log"; then echo "REPLAY-REPRODUCES $(grep -o 'minimisation_steps[^,]*' $rp | head -1) $(wc -c < $rp) bytes"; else echo "REPLAY-DOES-NOT-REPRODUCE rc=$rrc"; tail -3 "$W/replay.log"; fi
  else
    echo "REPLAY-FILE-MISSING"
  fi
fi
if [ -n "${KEEP_REPLAY:-}" ] && ls "$W/out/replays/"*.json >/dev/null 2>&1; then cp "$W/out/replays/"*.json "$KEEP_REPLAY/"; fi
exit $rc
