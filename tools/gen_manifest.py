#!/venv/bin/python
"""Regenerates /verif/MANIFEST.json from the table below (keeps it valid at all times)."""
import json, os, sys
HERE = os.path.dirname(os.path.dirname(os.path.abspath(__file__)))

CHECKS = {
 "C01": dict(technique="deterministic simulation: seeded worlds, every RNG decision scripted at the random seam; per-match geometric oracle",
             text="Seeded search over generated periodic worlds (cells of every family, planted copies/decoys, hints, tolerances) with every random decision of the search scripted (first/last/alternate/Mersenne-Twister streams, adversarial axis draws); each returned match is checked against an independent rigid-motion oracle. Exploration: a clean batch is evidence, not proof.",
             note="Trusted: numpy/scipy linear algebra, the harness' Kabsch/lattice arithmetic; acceptance norm = numpy.allclose per coordinate.", ref="5/C01"),
 "C02": dict(technique="deterministic simulation: planted ground truth + independent exhaustive reference matcher, RNG scripted",
             text="Same simulated worlds with planted occurrences across faces/edges/corners; completeness demanded for copies certified well inside tolerance (a-priori bound atol/(2K), or - for copies with noise up to 0.75 atol - the all-anchor certificate: every pair distance and every three-point anchoring within 0.8 atol), duplicates forbidden, count equality asserted when an exhaustive independent enumeration finds no gray-zone group; repeated under every RNG script.",
             note="Trusted: the harness' reference matcher/classifier and the all-anchor certificate; a tightening of the tolerance to less than ~0.8 atol is detected (hand mutants mutants/c02_*), sites between 0.8 atol and sqrt(3) atol are not judged.", ref="5/C02"),
 "C03": dict(technique="deterministic simulation: paired runs (re-presentation x RNG script), real MOF files through the simulated file seam",
             text="Each simulated run searches a base world and 2-5 re-presentations of it (shift+wrap, atom permutation, rigid motion of the pattern, other valid hint triple incl. index 0, other RNG script, a x b x c supercell built by Atoms.replicate) and compares the matched groups through the known renaming; groups must survive when their residual is certified small for the other side's hints; supercell counts must be exactly a*b*c per certified unit-cell group. The repository's real MOF files (read through simulated file objects with scripted chunking) are part of the workload.",
             note="Trusted: harness arithmetic (Kabsch residuals, folding supercell atoms by position). Groups without certified margin are not judged.", ref="5/C03"),
 "C04": dict(technique="deterministic simulation: RNG-selected subset observed at the random seam, inner search tapped; atom-accounting reference",
             text="Replace runs on generated worlds with full bystander metadata; the random seam decides tie-breaks and WHICH matches are sampled (first-k/last-k/alternate/MT), the inner search is tapped, and the result is accounted atom by atom (bystanders by exact position with label/mass/charge/group, retained atoms, inserted element counts, placement of inserted atoms, nearest-integer rounding of f*M, reported count, inputs unmodified).",
             note="Trusted: harness accounting; overlapping selections are left to C07; order of atoms in the result is not judged.", ref="5/C04"),
 "C05": dict(technique="deterministic simulation: scripted tie-break/axis decisions; placement oracle modulo lattice; joint-motion paired run",
             text="Replace runs with emphasis on triclinic cells of both tilt signs, copies through faces/edges/corners, symmetric and collinear search patterns; for every replaced match a proper rigid motion must carry search+replacement coordinates onto matched+inserted atoms modulo the lattice within a tolerance-proportional bound; inserted atoms must lie inside the cell; a second run with both patterns moved jointly must give the same multiset modulo lattice.",
             note="Bound 3*K*eps*sqrt(n)+1e-6*(1+reach) (K a-priori amplification, eps planted noise); joint-motion equality only when the frame is determined by the search pattern and no tie-break had >1 candidate.", ref="5/C05"),
 "C07": dict(technique="deterministic simulation: glued overlapping occurrences; expected raise/no-raise computed from tapped matches and the seam-observed selection",
             text="Worlds built by gluing pattern copies at shared atoms (chains, stars) so occurrences overlap in every combination; which physical atom is retained depends on the scripted tie-break, which matches are selected on the scripted sample; the oracle computes per-match deletion sets from the observed decisions and demands the dedicated error exactly when an atom would be removed twice (never with the ignore flag or an empty replacement), and accounts survivors otherwise.",
             note="Error recognised by class name AtomsShouldNotBeDeletedTwice.", ref="5/C07"),
 "C08": dict(technique="deterministic simulation: two-step replacement histories with exact before/after oracle; real MOF files through the simulated file seam",
             text="Histories of two consecutive operations under a scripted random seam: identity replacement (term-free copy) on structures that carry their own typed terms and on the repository's real MOF files (atoms, charges, groups and term tuple sets must be unchanged), A->B->A site substitution with absent elements (multiset of element/position mod lattice restored), replace-all-then-search-again (no occurrence on original atoms remains).",
             note="A->B->A asserted for non-overlapping occurrences certified within atol/(2K^2); tolerance 1e-9 for single atoms, placement bound otherwise.", ref="5/C08"),
 "C09": dict(technique="deterministic simulation: model-based stateful histories over a pool of Atoms objects with durable restarts and injected write faults",
             text="Seeded operation histories (construct in 3 idioms, copy, subset, delete, pop, extend default/mapped/repeated, overlay extension, replicate, translate, save->simulated disk->reload) over 2-5 objects sharing a world configuration; after every step every involved object is compared with a trivial reference model through the abstraction function (every type id resolved through its tables) plus independent structural invariants, every uninvolved object must be bit-identical (aliasing), and every restart is inspected by an independent strict LAMMPS-data reader. Fault configurations inject ENOSPC/EIO/lost and torn writes with the narrow oracle 'raised, object unchanged, clean retry succeeds'.",
             note="Histories are sampled, not enumerated. Elements are not compared across LAMMPS restarts (C14). Objects of one world agree per kind on having coefficient tables.", ref="5/C09"),
 "C10": dict(technique="deterministic simulation (history-only): refinement of every delete/pop transition against the reference model, local exhaustive subset fan-out",
             text="Short generated histories produce the representation a deletion is applied to; random deletions in every container, pop()/pop(i), and for every object with <= 6 atoms every non-empty subset (every listing order for <= 3 indices) are applied to copies and compared index-wise with the model (survivors' data and order, surviving terms with type resolution and extra fields).",
             note="No fault/schedule/random dimension exists for this property; only the operation history and the reference model are simulation ingredients (weakest fit, stated in DESIGN).", ref="5/C10"),
 "C11": dict(technique="deterministic simulation (history-only): refinement of every extend transition against the reference model, local exhaustive identity-map fan-out",
             text="Short generated histories then extensions: default merge, identity maps, repeated extension with extend_types offsets, self-extension, overlays that re-define terms on the same atoms forwards/backwards/permuted, emptied kinds, empty objects, extra columns; for every ordered pair of small objects every injective partial identity map is applied to copies; results compared with the model (order of atoms, re-typed mapped atoms, re-targeted terms, coefficient text or type classes, supersession, '.'-filled columns).",
             note="Same caveat as C10: no fault/random dimension. Table-less kinds compared by type partition, not id values.", ref="5/C11"),
 "C12": dict(technique="deterministic simulation (history-only): refinement of every replicate transition against the reference model + crystal-equality check",
             text="Objects with any term kinds (incl. impropers), extra columns and cells of every family (incl. arbitrarily rotated) are replicated with unequal factors; result compared with the model's images (read off in the result's own block order or matched by position), cell rows a*A,b*B,c*C, folded fractional coordinates reproduce the original crystal a*b*c times, original bit-identical, (1,1,1) identity.",
             note="Same caveat as C10.", ref="5/C12"),
 "C06": dict(technique="deterministic simulation: chained replacement histories vs reference model (delete+extend), scripted RNG, tapped search, durable restart read by an independent reader",
             text="Histories of 1-3 chained replacements on worlds whose structure carries typed terms inside/outside/across the occurrences and whose patterns carry all four term kinds, coefficient tables, pair coefficients, colliding labels, charges, groups; after each call the result must equal the reference model's extend+delete of the observed selection (each pattern term once per match with the pattern's coefficient text, retained atoms re-typed, bystander terms intact unless superseded forwards/backwards), and the final structure is written to the simulated disk and compared through an independent strict LAMMPS reader.",
             note="Known finding (printed as KNOWN-FINDING, see known_findings.json): the documented CIF workflow (structure without pair table + parameterised pattern) misaligns the pair table. Inserted positions are C05's subject.", ref="5/C06"),
 "C13": dict(technique="deterministic simulation: writer -> simulated disk (ENOSPC/EIO inside write() or only at close(), torn and lost writes, crash, short reads, read errors; caller-owned read/write streams; str/pathlib/odd-extension/dotted paths) -> independent strict reader + real reader, repeated restarts",
             text="Generated structures (both atom styles, orthorhombic / LAMMPS-oriented tilted cells incl. unreduced tilts / no cell, unused types, multi-word coefficient comments, negative charges and coordinates) are written through every branch of Atoms.save/save_lmpdat onto a simulated disk, inspected by an independent strict reader of the documented format (header counts vs sections, box/tilt, 1-based ids, masses, labels, coefficient tokens), re-read through path / simulated file objects with scripted line delivery, compared with the reference model to printed precision, and re-written twice (T2 == T3 byte-for-byte). Fault configurations: ENOSPC/EIO after k characters, lost and torn writes, with the oracle 'raised, object unchanged, clean retry right'.",
             note="Decided against the harness' strict reader of the documented read_data format, not against LAMMPS itself. Elements not compared (C14).", ref="5/C13"),
 "C16": dict(technique="deterministic simulation: documents served through simulated text streams with scripted read(n) chunking, real files and real paths",
             text="Generated CML documents in the repository's Avogadro flavour (any id scheme incl. shuffled and arbitrary strings, bond list present/empty/absent, coordinates of any sign/magnitude, attribute order varied) are loaded through simulated streams that return 1..n characters per read(n), through a real open file and through str/pathlib paths, via Atoms.load and load_cml; atoms (order, element, exact coordinates) and bonds (multiset of pairs) must equal the document in every delivery mode.",
             note="xml.etree is real code fed by the stub stream. Bond listing order/orientation not judged.", ref="5/C16"),
 "C15": dict(technique="deterministic simulation: writer -> simulated disk (write errors inside write() or at close(), read errors, scripted chunking, caller-owned read/write streams) -> independent tokenizer + real reader + ASE; restart idempotence incl. layout of data names; hand-made inputs for the reader",
             text="Generated structures (cells of every family, terms of every kind, extra columns, coordinates inside/outside/on the boundary) are written as P1 CIF in fractional or Cartesian form through every save branch onto the simulated disk, inspected by an independent CIF tokenizer (cell parameters, element order, coordinates to printed precision, charges, bond/angle/torsion label resolution, extra columns), re-read through path / simulated streams, compared with the reference model (fractional coordinates modulo 1, torsions = dihedrals then impropers), re-written twice (T2 == T3), and compared with ASE's reader; plus a hand-made CIF text per run (s.u. parentheses, Cartesian, coordinates several cells away, P1 / non-P1 names).",
             note="PyCifRW 5.0.1 and ASE are real. Type labels are not part of a CIF and are not compared.", ref="5/C15"),
 "C20": dict(technique="deterministic simulation: CLI run in-process as a client of the library under the scripted random seam, its library calls tapped, files compared with the API path",
             text="Per run a generated world is written to real files (CIF / LAMMPS data / CML+cell; patterns as CML/LAMMPS/CIF) and the click command is run in-process with a drawn subset of non-default options (atol, fraction, hints incl. 0, replicate, mic, charge file, --pp, output format); the call it makes into the library is observed at a tap (every option value must arrive; the structure handed over must equal load -> charges -> replicate -> mic -> pp through the API), the output file must be byte-identical to the API path's under the same random script, find-only runs must print the API's matches and write the structure unmodified.",
             note="Known finding printed as KNOWN-FINDING: --framework-element raises AttributeError. 'Same random seed' = same SimRandom script.", ref="5/C20"),
}

NOT_APPLICABLE = [
 dict(property_id="C14", reason="pure function of a list of masses against a constant table: no schedule, clock, fault, random decision or history is in its statement or on its code path; deciding it is table enumeration, not simulation (DESIGN 5, C14)"),
 dict(property_id="C17", reason="detect_bonds is a pure, deterministic, read-only function of (elements, positions, cell); the invariances in the statement are input transformations, not schedules or faults (DESIGN 5)"),
 dict(property_id="C18", reason="pure arithmetic over a finite parameter table; the right tool is exhaustive enumeration, nothing for a simulator to own (DESIGN 5)"),
 dict(property_id="C19", reason="pure functions of a bond list and a type list; no randomness reaches a result (the one set is sorted before use), no I/O, no mutable history (DESIGN 5)"),
]

def main():
    present = [p for p in CHECKS if os.path.exists(os.path.join(HERE, "mofsim", "props", p.lower() + ".py"))]
    checks = []
    for pid in sorted(present):
        c = CHECKS[pid]
        checks.append({
            "property_id": pid,
            "quick_cmd": "./check %s --tier quick" % pid,
            "thorough_cmd": "./check %s --tier thorough" % pid,
            "evidence_file": "/verif/evidence/%s.json" % pid,
            "replay_cmd_template": "./check %s --replay {path}" % pid,
            "engine": "mofsim",
            "level_claimed": {"category": "exploration", "text": c["text"], "design_ref": "DESIGN.md section " + c["ref"]},
            "level_note": c["note"],
            "technique": c["technique"],
        })
    claimed = {c["property_id"] for c in checks}
    na = list(NOT_APPLICABLE)
    for pid in ["C%02d" % i for i in range(1, 21)]:
        if pid not in claimed and pid not in {n["property_id"] for n in na}:
            na.append(dict(property_id=pid, reason="not claimed yet: check under construction in this session (see DESIGN.md section 5/%s)" % pid))
    m = {
        "version": 1,
        "setup_cmd": "./tools/setup.sh",
        "hooks": {"guard": "WILMERLAB_MOFUN_VERIF", "enable": "no source hooks are needed: every seam is a module attribute or an argument and is installed from outside by mofsim.seams; the launcher exports WILMERLAB_MOFUN_VERIF=1 for uniformity",
                  "baseline_off_cmd": "cd /repo && /venv/bin/python -m pytest -ra -q -p no:cacheprovider --timeout=900 --continue-on-collection-errors",
                  "source_commits": [], "add_only": True},
        "engines": [{"name": "mofsim", "path": "/verif/mofsim", "serves_properties": sorted(claimed),
                     "kind_free_text": "hand-written deterministic simulator: seeded scheduler PRNG -> world/operation/fault spec -> real mofun code under scripted random seam, simulated disk and call taps -> oracles/reference models; own minimiser and literal-spec replay files"}],
        "checks": checks,
        "not_applicable": sorted(na, key=lambda n: n["property_id"]),
        "notes": "All checks: ./check <ID> [--tier quick|thorough] [--replay FILE]; honours VERIF_SEED, VERIF_TIER, VERIF_WORKERS, VERIF_BUDGET_S. Exit 0 ok / 1 VIOLATION / 2 HARNESS-ERROR. Self-tests: ./check selftest-determinism, ./check selftest-seeded, ./check selftest-refactors. Every run executes in its own forked process image; replay files carry the literal (minimised) spec.",
    }
    with open(os.path.join(HERE, "MANIFEST.json"), "w") as f:
        json.dump(m, f, indent=1)
    print("MANIFEST.json: %d checks, %d not_applicable" % (len(checks), len(na)))

if __name__ == "__main__":
    main()
