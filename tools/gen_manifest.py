#!/venv/bin/python
"""Regenerates /verif/MANIFEST.json from the table below (keeps it valid at all times)."""
import json, os, sys
HERE = os.path.dirname(os.path.dirname(os.path.abspath(__file__)))

CHECKS = {
 "C01": dict(technique="deterministic simulation: seeded worlds, every RNG decision scripted at the random seam; per-match geometric oracle",
             text="Seeded search over generated periodic worlds (cells of every family, planted copies/decoys, hints, tolerances) with every random decision of the search scripted (first/last/alternate/Mersenne-Twister streams, adversarial axis draws); each returned match is checked against an independent rigid-motion oracle. Exploration: a clean batch is evidence, not proof.",
             note="Trusted: numpy/scipy linear algebra, the harness' Kabsch/lattice arithmetic; acceptance norm = numpy.allclose per coordinate.", ref="5/C01"),
 "C02": dict(technique="deterministic simulation: planted ground truth + independent exhaustive reference matcher, RNG scripted",
             text="Same simulated worlds with planted occurrences across faces/edges/corners; completeness demanded for copies certified well inside tolerance (atol/(2K)), duplicates forbidden, count equality asserted when an exhaustive independent enumeration finds no gray-zone group; repeated under every RNG script.",
             note="Trusted: the harness' reference matcher/classifier; 'well inside' is atol/(2K), so a tightening of the tolerance by less than ~4x is not detected.", ref="5/C02"),
}

NOT_APPLICABLE = [
 dict(property_id="C14", reason="pure function of a list of masses against a constant table: no schedule, clock, fault, random decision or history is in its statement or on its code path; deciding it is table enumeration, not simulation (DESIGN 5, C14)"),
 dict(property_id="C17", reason="detect_bonds is a pure, deterministic, read-only function of (elements, positions, cell); the invariances in the statement are input transformations, not schedules or faults (DESIGN 5)"),
 dict(property_id="C18", reason="pure arithmetic over a finite parameter table; the right tool is exhaustive enumeration, nothing for a simulator to own (DESIGN 5)"),
 dict(property_id="C19", reason="pure functions of a bond list and a type list; no randomness reaches a result (the one set is sorted before use), no I/O, no mutable history (DESIGN 5)"),
]

def main():
    present = [p for p in CHECKS if os.path.exists(os.path.join(HERE, "mofsim", "props", p.lower() + ".py"))]
    checks = []
    for pid in sorted(present):
        c = CHECKS[pid]
        checks.append({
            "property_id": pid,
            "quick_cmd": "./check %s --tier quick" % pid,
            "thorough_cmd": "./check %s --tier thorough" % pid,
            "evidence_file": "/verif/evidence/%s.json" % pid,
            "replay_cmd_template": "./check %s --replay {path}" % pid,
            "engine": "mofsim",
            "level_claimed": {"category": "exploration", "text": c["text"], "design_ref": "DESIGN.md section " + c["ref"]},
            "level_note": c["note"],
            "technique": c["technique"],
        })
    claimed = {c["property_id"] for c in checks}
    na = list(NOT_APPLICABLE)
    for pid in ["C%02d" % i for i in range(1, 21)]:
        if pid not in claimed and pid not in {n["property_id"] for n in na}:
            na.append(dict(property_id=pid, reason="not claimed yet: check under construction in this session (see DESIGN.md section 5/%s)" % pid))
    m = {
        "version": 1,
        "setup_cmd": "./tools/setup.sh",
        "hooks": {"guard": "WILMERLAB_MOFUN_VERIF", "enable": "no source hooks are needed: every seam is a module attribute or an argument and is installed from outside by mofsim.seams; the launcher exports WILMERLAB_MOFUN_VERIF=1 for uniformity",
                  "baseline_off_cmd": "cd /repo && /venv/bin/python -m pytest -ra -q -p no:cacheprovider --timeout=900 --continue-on-collection-errors",
                  "source_commits": [], "add_only": True},
        "engines": [{"name": "mofsim", "path": "/verif/mofsim", "serves_properties": sorted(claimed),
                     "kind_free_text": "hand-written deterministic simulator: seeded scheduler PRNG -> world/operation/fault spec -> real mofun code under scripted random seam, simulated disk and call taps -> oracles/reference models; own minimiser and literal-spec replay files"}],
        "checks": checks,
        "not_applicable": sorted(na, key=lambda n: n["property_id"]),
        "notes": "All checks: ./check <ID> [--tier quick|thorough] [--replay FILE]; honours VERIF_SEED, VERIF_TIER, VERIF_WORKERS, VERIF_BUDGET_S. Exit 0 ok / 1 VIOLATION / 2 HARNESS-ERROR. Self-tests: ./check selftest-determinism, ./check selftest-seeded.",
    }
    with open(os.path.join(HERE, "MANIFEST.json"), "w") as f:
        json.dump(m, f, indent=1)
    print("MANIFEST.json: %d checks, %d not_applicable" % (len(checks), len(na)))

if __name__ == "__main__":
    main()
