#!/bin/bash
# tools/verify_seeded.sh <dir with patch.diff + demo.py>: confirm (a) tests unchanged with the patch, (b) demo fails with and passes without.
set -u
D="$(realpath "$1")"
W="$(mktemp -d /tmp/mofun-seed.XXXXXX)"
trap 'rm -rf "$W"' EXIT
rsync -a --exclude .git --exclude '__pycache__' /repo/ "$W/clean/"
rsync -a "$W/clean/" "$W/mut/"
( cd "$W/mut" && patch -p1 -s < "$D/patch.diff" ) || { echo "PATCH-FAILED"; exit 3; }
cd "$W/mut" && PYTHONPATH="$W/mut" /venv/bin/python -m pytest -q -p no:cacheprovider --timeout=900 tests 2>&1 | tail -1
cd "$W/mut" && PYTHONPATH="$W/mut" timeout 600 /venv/bin/python "$D/demo.py" >/dev/null 2>&1; echo "demo with patch: exit $?"
cd "$W/clean" && PYTHONPATH="$W/clean" timeout 600 /venv/bin/python "$D/demo.py" >/dev/null 2>&1; echo "demo clean: exit $?"
