#!/bin/bash
# run every registered quick command once (regenerates /verif/evidence/*.json); prints one line per check
cd "$(dirname "$0")/.."
for id in $(/venv/bin/python -c "import json; print(' '.join(c['property_id'] for c in json.load(open('MANIFEST.json'))['checks']))"); do
  s=$(date +%s); out=$(./check $id --tier quick 2>&1); rc=$?; e=$(date +%s)
  echo "$id rc=$rc $((e-s))s $(echo "$out" | grep -E '^runs=' | cut -c1-90) $(echo "$out" | grep -E 'VIOLATION|HARNESS|KNOWN' | head -2)"
done
