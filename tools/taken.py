import os,re,collections
d=collections.defaultdict(list)
for n in sorted(os.listdir('/verif/seeded')):
    m=re.match(r'(c\d+)[a-z]?-(.*)',n)
    d[m.group(1)].append(m.group(2).replace('-',' '))
import sys
print("; ".join(d[sys.argv[1]]))
