#!/bin/bash
# usage: agent_prompt.sh c01
p=$1
cat <<EOF
You are helping test a verification suite by producing realistic *bugs* (mutations) for the Python library WilmerLab/mofun (finds and replaces atom patterns in periodic molecular structures; LAMMPS/CIF/CML I/O).

Your private scratch git worktree of the library is /tmp/wt-$p (detached HEAD). Work ONLY there and in /tmp/out-$p. Do NOT read, list or modify anything under /verif or /repo or /root/.vp, and do not look at other /tmp/wt-* or /tmp/out-* directories. Python is /venv/bin/python. IMPORTANT: the package 'mofun' is installed in /venv in editable mode pointing at /repo, so always run with PYTHONPATH=/tmp/wt-$p and cwd /tmp/wt-$p, and verify once with: cd /tmp/wt-$p && PYTHONPATH=/tmp/wt-$p /venv/bin/python -c "import mofun; print(mofun.__file__)" (must print a path under /tmp/wt-$p).
The existing test suite is run with: cd /tmp/wt-$p && PYTHONPATH=/tmp/wt-$p /venv/bin/python -m pytest -q -p no:cacheprovider --timeout=900 tests   (121 pass; 1 test, test_atoms_load_p1_cif__outputs_file_identical_to_input_file, fails already before your change - that is expected; several are skipped as slow).

Here is a semantic property that the library is supposed to satisfy:

$(cat /tmp/prop-$p.txt)

TASK: produce TWO independent, different changes to the library source (files under mofun/ only) each of which BREAKS this property, while the library still imports and the existing test suite above gives exactly the same pass/fail result as before (121 passed, the same 1 pre-existing failure). For each change also write a demonstration: a small standalone python script that exits with status 1 (printing what went wrong) when run against the changed library and exits 0 when run against the unchanged library.

Requirements for the changes:
- Realistic: the kind of slip a maintainer could make in a refactor, optimisation, 'simplification' or well-meant bug fix; a few lines; no sabotage-looking code (no 'if len(x)==17', no randomness added, no environment checks).
- It must need something SPECIFIC to manifest - e.g. a particular placement relative to the periodic cell boundary, a triclinic cell, a particular pose/orientation, a symmetric or collinear pattern, a particular state of the random generator, a particular option/hint value, a multi-step sequence of operations, an unusual-but-legal input, or two cooperating sites that each look fine alone - NOT something ordinary use would expose at once (that is also why the existing tests must still pass).
- The two changes must use different mechanisms / code sites.
- The change must violate the property as stated (for inputs inside the property's quantifier), not merely change unspecified behaviour.

Deliverables (write them; keep the worktree clean at the end with 'git checkout -- .'):
  /tmp/out-$p/1/patch.diff  (output of 'git diff' in the worktree for change 1; must apply with 'git apply' to a clean checkout)
  /tmp/out-$p/1/demo.py     (run as: cd <checkout> && PYTHONPATH=<checkout> /venv/bin/python /tmp/out-$p/1/demo.py ; exit 1 with change, 0 without)
  /tmp/out-$p/1/notes.md    (3-8 lines: what the change is, which clause of the property it breaks, what exactly is needed for it to manifest)
  /tmp/out-$p/2/...         (same for change 2)
Before finishing, verify for each change: (a) test suite result unchanged with the patch applied, (b) demo exits 1 with the patch and 0 on the clean worktree. State the verification results in your final answer. There is no network access.
EOF
