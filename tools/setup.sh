#!/bin/bash
# Offline sanity step: nothing to build (pure python); verify the interpreter and the repo's dependencies import.
set -e
cd "$(dirname "$0")/.."
export PYTHONPATH="${VERIF_REPO:-/repo}:$PWD" PYTHONDONTWRITEBYTECODE=1
/venv/bin/python - <<'PY'
import numpy, scipy, ase, CifFile, click, ordered_set, mofun, mofsim.core
print("setup ok: mofun from", mofun.__file__)
PY
mkdir -p evidence replays
