#!/bin/bash
# tools/eval_out.sh <prop lower> <ID> [other IDs...]: confirm and evaluate the sub-agent outputs under /tmp/out-<prop>/*/
p=$1; shift
for d in /tmp/out-$p/*/; do
  [ -f "$d/patch.diff" ] || continue
  i=$(basename $d)
  echo "=== $p/$i: $(/verif/tools/verify_seeded.sh $d | tr '\n' ' ')"
  for id in "$@"; do
    echo "    vs $id: $(/verif/tools/mutant.sh $d/patch.diff $id --tier quick | grep -E '^violation class|PATCH|HARNESS|^runs=' | cut -c1-200 | tr '\n' '|')"
  done
done
