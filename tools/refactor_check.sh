#!/bin/bash
# tools/refactor_check.sh <patch> : every check must stay silent on a behaviour-preserving refactoring
P=$1; R=${2:-1500}
for id in C01 C02 C03 C04 C05 C06 C07 C08 C09 C10 C11 C12 C13 C15 C16 C20; do
  out=$(/verif/tools/mutant.sh $P $id --runs $R 2>&1); rc=$?
  if [ $rc -ne 0 ]; then echo "ALARM $P $id rc=$rc: $(echo "$out" | grep -E '^violation class|HARNESS|PATCH' | head -2 | cut -c1-300)"; fi
done
echo "done $P"
