#!/bin/bash
# tools/soak.sh <first seed> <last seed>: every quick check under several VERIF_SEEDs on the unchanged tree (false-alarm soak).
cd "$(dirname "$0")/.."
export VERIF_OUT="${VERIF_OUT:-$(mktemp -d /tmp/mofsim-soak.XXXXXX)}"
for seed in $(seq $1 $2); do
  for id in C01 C02 C03 C04 C05 C06 C07 C08 C09 C10 C11 C12 C13 C15 C16 C20; do
    out=$(VERIF_SEED=$seed ./check $id --tier ${3:-quick} 2>&1); rc=$?
    if [ $rc -ne 0 ]; then echo "SEED $seed $id rc=$rc"; echo "$out" | grep -E "VIOLATION|violation|HARNESS" | head -5; cp -r $VERIF_OUT/replays /verif/.work/soak-replays-$seed-$id 2>/dev/null; fi
  done
  echo "seed $seed done"
done
rm -rf "$VERIF_OUT"
