#!/venv/bin/python
"""triage.py <PID> <nruns>: run indices serially, print first example of each violation class with minimised ops."""
import sys, os, json
sys.path[:0] = [os.environ.get("VERIF_REPO", "/repo"), "/verif"]
from mofsim import core
pid, n = sys.argv[1], int(sys.argv[2])
want = sys.argv[3] if len(sys.argv) > 3 else None
mod = core.load_prop(pid)
seen = {}
for i in range(n):
    r = core.run_index(pid, "quick", 0, i, keep_spec=True)
    if r.status in ("violation", "harness") and (r.cls, r.site) not in seen and (want is None or want in r.cls):
        seen[(r.cls, r.site)] = i
        spec = r.spec
        if r.status == "violation":
            spec, steps = core.minimise(mod, r.spec, r.cls, r.site, budget_s=15)
        print("=== run %d %s site=%s\n    %s" % (i, r.cls, r.site, r.msg))
        if r.tb: print(r.tb)
        if "ops" in spec:
            for o in spec["objects"]:
                print("   obj", {k: v for k, v in o.items() if v not in ([], None, {}) and k not in ("positions",)})
            for op in spec["ops"]:
                print("   op ", op)
        json.dump(spec, open("/tmp/triage-%s-%d.json" % (pid, i), "w"))
print("classes:", len(seen))
