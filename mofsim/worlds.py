"""World generation for the search/replace properties: periodic structures with planted pattern occurrences."""
import math

import numpy as np

from . import geom


def _min_image_clash(X, existing, cell, dmin):
    if len(existing) == 0:
        return False
    inv = np.linalg.inv(cell)
    E = np.asarray(existing, float)
    for x in X:
        f = (E - x) @ inv
        f -= np.round(f)
        # for skewed cells the rounded image is not always the nearest: test the 27 neighbours of it
        for s in geom.image_offsets(1):
            d = np.linalg.norm((f + s) @ cell, axis=1)
            if (d < dmin).any():
                return True
    return False


PREFIX_TWINS = {"Cl": ["C"], "Cu": ["C"], "Br": ["B"], "Zr": ["Zn"], "C": ["Cl", "Cu", "Co", "Ca"], "N": ["Ni", "Na", "Nb"], "O": ["Os"], "H": ["He", "Hf", "Hg"], "F": ["Fe"],
                "S": ["Si", "Sn", "Se", "Sr"], "B": ["Br", "Ba", "Be"], "P": ["Pt", "Pd", "Pb"]}


def pick_hints(rng, P, prob=0.4):
    n = len(P)
    if n < 2 or rng.random() > prob:
        return None
    for _ in range(30):
        # an orientation point is only given together with both axis points: with the axis left to the implementation
        # (farthest pair, ties broken by float noise for symmetric patterns) the caller cannot know whether its
        # orientation point is an axis end, i.e. whether the triple is valid at all
        which = rng.choice(["a1", "a2", "a1a2", "all", "all", "all", "a1a2"])
        a1 = a2 = op = None
        zero_slot = rng.random() < 0.35      # index 0 in some slot is a named corner of the quantifier
        if "a1" in which or which == "all":
            a1 = rng.randrange(n)
        if "a2" in which or which == "all":
            a2 = rng.randrange(n)
        if n > 2 and ("op" in which or which == "all"):
            op = rng.randrange(n)
        if zero_slot:
            slots = [s for s, v in (("a1", a1), ("a2", a2), ("op", op)) if v is not None]
            if slots:
                s = rng.choice(slots)
                if s == "a1":
                    a1 = 0
                elif s == "a2":
                    a2 = 0
                else:
                    op = 0
        h = [a1, a2, op]
        if h == [None, None, None]:
            continue
        if geom.hints_valid(P, h) and math.isfinite(geom.amplification_K(P, h)):
            return h
    return None


def default_scripts(rng, antiparallel=False):
    s = rng.getrandbits(30)
    scripts = [
        {"choice": {"kind": "first"}, "sample": {"kind": "first"}, "axis": {"kind": "mt"}, "seed": s},
        {"choice": {"kind": "last"}, "sample": {"kind": "last"}, "axis": {"kind": "mt"}, "seed": s + 1},
        # (a selection that is neither ascending nor a prefix, reaching past index 8 when there are that many matches)
        {"choice": {"kind": "alternate"}, "sample": {"kind": "explicit", "list": [8, 3, 9, 1, 10, 0, 11, 2]}, "axis": {"kind": "mt"}, "seed": s + 2},
        {"choice": {"kind": "mt"}, "sample": {"kind": "mt"}, "axis": {"kind": "mt"}, "seed": s + 3},
    ]
    if antiparallel:
        scripts.append({"choice": {"kind": "mt"}, "sample": {"kind": "mt"},
                        "axis": {"kind": "near_parallel", "delta": 10 ** rng.uniform(-5, -2)}, "seed": s + 4})
        scripts.append({"choice": {"kind": "last"}, "sample": {"kind": "mt"},
                        "axis": {"kind": "aligned", "axis": rng.randrange(3)}, "seed": s + 5})
    return scripts


def gen_find_world(rng, max_atoms=48, max_copies=6, families=None, cell_families=None, allow_rotated=False,
                   hints_prob=0.4, decoys=True, min_copies=0, atols=None, noise=True, pattern=None, width_mult=1.0,
                   no_tight=False, noise_div_K=False, round_cell=None, force_axis_exact=False, poses=None, moderate_noise=False):
    """A periodic structure with planted copies of a pattern (+ decoys).  Returns a JSON-able spec."""
    family = rng.choice(families or geom.PATTERN_FAMILIES)
    if pattern is None:
        els, P, info = geom.make_pattern(rng, family)
        if rng.random() < 0.7:
            P = P @ geom.random_rotation(rng).T + np.array([rng.uniform(-3, 3) for _ in range(3)])
    else:
        els, P = pattern
        P = np.asarray(P, float)
    n = len(P)
    axis_exact = pattern is None and n >= 2 and (rng.random() < 0.12 or force_axis_exact)
    if axis_exact:
        # the pattern's alignment axis exactly along +-x/+-y/+-z with its first axis point at the origin, and (below) the
        # first copy exactly antiparallel to it: the only way into the implementation's antiparallel branch, probed along
        # every coordinate direction
        a1, a2, _ = geom.effective_hints(P, None)
        ax = P[a2] - P[a1]
        L = float(np.linalg.norm(ax))
        u = ax / L
        v = np.cross(u, [0.3, 0.5, 0.8])
        v /= np.linalg.norm(v)
        B = np.array([u, v, np.cross(u, v)])
        P = (P - P[a1]) @ B.T
        P[a1] = 0.0
        P[a2] = [L, 0.0, 0.0]
        if rng.random() < 0.3:
            # ... or exactly along a body diagonal: three components of bitwise equal magnitude
            s_ = L / math.sqrt(3.0)
            P = P @ geom._rot_u_to_v(np.array([1.0, 0.0, 0.0]), np.ones(3) / math.sqrt(3.0)).T
            P[a1] = 0.0
            P[a2] = [s_, s_, s_]
            P = P * np.array([rng.choice([1.0, -1.0]) for _ in range(3)]) if rng.random() < 0.5 else P
            if np.linalg.det(np.diag(np.sign(P[a2]))) < 0:
                P = P[:, [1, 0, 2]]          # keep it a proper rotation of the pattern: a sign flip plus one swap
        P = P @ geom.CUBE_ROTS[rng.randrange(24)].T
    D = geom.diameter(P)
    atol = rng.choice(atols or geom.ATOLS)
    if n > 1:
        pd = np.sqrt(((P[:, None, :] - P[None, :, :]) ** 2).sum(-1))
        dmin_pat = pd[np.triu_indices(n, 1)].min()
        while atol > dmin_pat / 5.0:
            atol = atol / 2.0
    if pattern is None and family in ("planar", "bigring", "c6") and n >= 4 and rng.random() < 0.35:
        # handedness carried only by a small out-of-plane offset of one atom (between 0.6 and 3 atol): its mirror image is
        # a near miss that passes any pair-distance filter
        nrm = geom.plane_normal(P, 1e-6)
        if nrm is not None:
            P = P.copy()
            P[rng.randrange(n)] += nrm * atol * rng.uniform(0.6, 3.0)
            D = geom.diameter(P)
    graze = pattern is None and n >= 2 and not axis_exact and rng.random() < 0.15
    if graze and rng.random() < 0.7:
        # start atom (pattern atom 0) = one end of the pattern's diameter
        e1, e2, _ = geom.effective_hints(P, None)
        order = [e1] + [i for i in range(n) if i != e1]
        P = P[order]
        els = [els[i] for i in order]
    hints = None if (axis_exact or graze) else pick_hints(rng, P, hints_prob)
    K = geom.amplification_K(P, hints)
    eps_max = atol / (2.0 * K)
    min_width = max(D + 2 * atol, 2.2) * width_mult
    sparse = round_cell is None and rng.random() < 0.07
    if sparse:
        # a large, sparsely filled cell: coordinates of tens of length units (anything RELATIVE to a coordinate is then large)
        min_width *= rng.uniform(4.0, 9.0)
    crowd = not sparse and n <= 3 and max_copies >= 4 and rng.random() < 0.1
    if crowd:
        # many occurrences of a small pattern (two-digit match counts)
        max_copies, max_atoms, min_copies = 14, max(max_atoms, 60), max(min_copies, 9)
        min_width *= 1.6
    cfam = rng.choice(cell_families or geom.CELL_FAMILIES)
    ntight = 0 if (no_tight or sparse) else rng.choice([0, 0, 1, 1, 2, 3])
    tight_axes = rng.sample(range(3), ntight)
    cell = geom.make_cell(rng, cfam, min_width, tight_axes, allow_rotated=allow_rotated)
    if round_cell is not None:
        cell = np.ceil(cell * 10 ** round_cell) / 10 ** round_cell      # lengths that survive any file format exactly (never smaller)

    atoms_pos, atoms_el = [], []
    planted = []
    ncopies = rng.randint(min_copies, max_copies)
    want_antiparallel = n >= 2 and (axis_exact or rng.random() < 0.25)
    a1, a2, op = geom.effective_hints(P, hints) if n >= 2 else (0, 0, None)

    def place(X, kind, pose, bclass, eps, elems=None):
        nonlocal atoms_pos, atoms_el
        if len(atoms_pos) + len(X) > max_atoms:
            return False
        if _min_image_clash(X, atoms_pos, cell, 0.7):
            return False
        base = len(atoms_pos)
        atoms_pos += [list(x) for x in X]
        atoms_el += list(elems) if elems is not None else (list(els[:len(X)]) if kind != "distractor" else [rng.choice(els) for _ in X])
        planted.append({"kind": kind, "indices": list(range(base, base + len(X))), "pose": pose, "boundary": bclass,
                        "eps": eps})
        return True

    def random_pose(pose):
        if pose == "aligned":
            return geom.CUBE_ROTS[rng.randrange(24)]
        if pose == "antiparallel":
            # proper rotation by pi about an axis perpendicular to the pattern's axis: maps the axis onto its negative
            ax = P[a2] - P[a1]
            if axis_exact and np.abs(np.abs(ax) - np.abs(ax).max()).max() < 1e-12:
                # body diagonal: the exact half turn about (sign0 e0 - sign1 e1)/sqrt(2), an integer matrix
                sg = np.sign(ax)
                ab = -sg[0] * sg[1]
                return np.array([[0.0, ab, 0.0], [ab, 0.0, 0.0], [0.0, 0.0, -1.0]])
            if axis_exact:
                k = int(np.argmax(np.abs(ax)))
                perp = np.zeros(3)
                perp[(k + rng.choice((1, 2))) % 3] = 1.0
                return np.diag(2 * perp - 1.0)      # exact: diag(+1 on perp, -1 elsewhere), determinant +1
            perp = np.cross(ax, [rng.gauss(0, 1) for _ in range(3)])
            if np.linalg.norm(perp) < 1e-6:
                perp = np.cross(ax, [1.0, 0.3, 0.2])
            return geom.rotation_about(perp, math.pi)
        if pose == "reach_aligned":
            # the direction from the first pattern atom to the atom farthest from it exactly along a coordinate axis (the tightest
            # case for any bounding-box prefilter around a starting atom), any turn about that axis
            j = int(np.argmax(np.linalg.norm(P - P[0], axis=1)))
            d = P[j] - P[0]
            e = np.zeros(3)
            e[rng.randrange(3)] = rng.choice([1.0, -1.0])
            return geom.rotation_about(e, rng.uniform(0, 2 * math.pi)) @ geom._rot_u_to_v(d / np.linalg.norm(d), e)
        if pose == "near_aligned":
            # a small but non-zero rotation away from identity / an axis-aligned pose (1e-4 .. 0.2 rad)
            base = np.eye(3) if rng.random() < 0.6 else geom.CUBE_ROTS[rng.randrange(24)]
            return geom.rotation_about([rng.gauss(0, 1) for _ in range(3)], 10 ** rng.uniform(-4, -0.7)) @ base
        return geom.random_rotation(rng)

    def random_translation(X, bclass):
        axes = rng.sample(range(3), bclass)
        f = np.array([rng.uniform(-0.06, 0.06) + rng.choice((0.0, 1.0)) if k in axes else rng.uniform(0.2, 0.8)
                      for k in range(3)])
        if rng.random() < 0.15 and bclass:   # put one particular atom (not the centroid) just across the boundary
            j = rng.randrange(len(X))
            return f @ cell - X[j]
        return f @ cell - X.mean(axis=0)

    def graze_copy():
        """Copy whose start atom lies just inside a cell face while its farthest atom points straight out through that face
        and is stretched outward by the (certified) noise: probes the candidate-image window to the last digit."""
        k = rng.randrange(3)
        side = rng.choice((0, 1))
        nrm = np.cross(cell[(k + 1) % 3], cell[(k + 2) % 3])
        nrm = nrm / np.linalg.norm(nrm)
        if np.dot(nrm, cell[k]) < 0:
            nrm = -nrm
        outward = nrm if side == 1 else -nrm
        jf = int(np.argmax(np.linalg.norm(P - P[0], axis=1)))
        u = (P[jf] - P[0]) / np.linalg.norm(P[jf] - P[0])
        # rotation taking u to outward, then a random twist about outward
        v = np.cross(u, outward)
        if np.linalg.norm(v) < 1e-9:
            R = np.eye(3) if np.dot(u, outward) > 0 else geom.rotation_about(np.cross(u, [0.3, 0.5, 0.8]), math.pi)
        else:
            R = geom.rotation_about(v, math.atan2(np.linalg.norm(v), np.dot(u, outward)))
        R = geom.rotation_about(outward, rng.uniform(0, 2 * math.pi)) @ R
        X = (P - P[0]) @ R.T
        eps = eps_max * 0.5 / (K if noise_div_K else 1.0)
        N = np.array([[rng.gauss(0, 1) for _ in range(3)] for _ in range(n)])
        N = N / np.maximum(np.linalg.norm(N, axis=1, keepdims=True), 1e-12) * eps * np.array([[rng.random()] for _ in range(n)])
        N[0] = 0.0
        N[jf] = outward * eps * rng.uniform(0.6, 1.0)
        X = X + N
        d_in = eps * rng.uniform(0.0, 0.5)
        f = np.array([rng.uniform(0.2, 0.8) for _ in range(3)])
        f[k] = float(side)
        origin = f @ cell - outward * d_in
        fo = geom.frac(origin, cell)
        if side == 1 and fo[k] >= 1.0:
            origin = origin - outward * 1e-9
        return X + origin, eps

    for c in range(ncopies):
        if graze and c == 0:
            for attempt in range(12):
                X, eps = graze_copy()
                if place(X, "copy", "graze", 1, eps):
                    break
            continue
        for attempt in range(12):
            pose = "antiparallel" if (want_antiparallel and c == 0) else rng.choice(poses or (["random", "random", "random", "aligned", "near_aligned"] + (["reach_aligned", "reach_aligned"] if moderate_noise and n >= 2 else [])))
            R = random_pose(pose)
            X = P @ R.T
            eps = 0.0
            if noise and rng.random() < 0.75 and not (axis_exact and pose == "antiparallel"):
                eps = eps_max * rng.choice([0.5, 0.45, 0.25, 0.05]) / (K if noise_div_K else 1.0)
                N = np.array([[rng.gauss(0, 1) for _ in range(3)] for _ in range(n)])
                N = N / np.maximum(np.linalg.norm(N, axis=1, keepdims=True), 1e-12) * eps * \
                    np.array([[rng.random()] for _ in range(n)])
                if pose == "antiparallel":
                    N[a1] = 0.0
                    N[a2] = 0.0
                X = X + N
            elif moderate_noise and n >= 2 and pose != "antiparallel" and rng.random() < 0.5:
                # noise of a sizeable fraction of the tolerance (NOT covered by the a-priori amplification bound: such a copy counts
                # as a must-find only if the all-anchor certificate of the oracle says so)
                eps = atol * rng.choice([0.15, 0.25, 0.35, 0.4])
                if rng.random() < 0.5:
                    eps = atol * rng.choice([0.15, 0.3, 0.4, 0.55, 0.65, 0.75])
                    # one atom pushed straight away from (or towards) the first pattern atom
                    j = int(np.argmax(np.linalg.norm(X - X[0], axis=1)))
                    d = X[j] - X[0]
                    X = X.copy()
                    X[j] = X[j] + d / np.linalg.norm(d) * eps * rng.choice([1.0, 1.0, -1.0])
                else:
                    N = np.array([[rng.gauss(0, 1) for _ in range(3)] for _ in range(n)])
                    X = X + N / np.maximum(np.linalg.norm(N, axis=1, keepdims=True), 1e-12) * eps * np.array([[rng.random()] for _ in range(n)])
            bclass = rng.choice([0, 0, 1, 1, 2, 3])
            X = X + random_translation(X, bclass)
            if place(X, "copy", pose, bclass, eps):
                break

    if decoys:
        ndec = rng.randint(0, 4)
        big_oop = n >= 13 and geom.plane_normal(P, 3.0 * atol) is not None
        for dnum in range(ndec + (1 if big_oop else 0)):
            kind = rng.choice(["mirror", "nearmiss", "gray", "partial", "distractor", "distractor", "outofplane", "outofplane", "prefix_twin", "buckled"])
            twin_els = None
            if kind == "prefix_twin":
                # an exact copy in which one element is replaced by an element whose symbol merely STARTS with it (C -> Cl, N -> Ni...)
                # ... or, the other way round, by the one-letter element its symbol begins with (Cl -> C, Br -> B)
                cands = sorted(set(e for e in els if e in PREFIX_TWINS))
                if not cands:
                    kind = "mirror"
                else:
                    e0 = els[0] if (els[0] in cands and rng.random() < 0.7) else rng.choice(cands)   # the search starts from pattern atom 0
                    tw = rng.choice(PREFIX_TWINS[e0])
                    twin_els = [tw if e == e0 else e for e in els]
            if big_oop and rng.random() < 0.3:
                kind = "buckled"
            nrm_pat = geom.plane_normal(P, 3.0 * atol) if kind in ("outofplane", "buckled") else None
            if kind == "buckled" and nrm_pat is None and n >= 3:
                # a collinear pattern can be bent in any direction perpendicular to its line
                ax_ = P[-1] - P[0]
                h_ = np.linalg.norm(np.cross(P - P[0], ax_), axis=1) / max(np.linalg.norm(ax_), 1e-12)
                if h_.max() < 1e-6:
                    nrm_pat = np.cross(ax_, [0.3, 0.5, 0.8])
                    nrm_pat = nrm_pat / np.linalg.norm(nrm_pat)
            if kind == "buckled" and (nrm_pat is None or n < 7):
                kind = "outofplane" if nrm_pat is not None and geom.plane_normal(P, 3.0 * atol) is not None else "mirror"
            if kind == "outofplane" and nrm_pat is None:
                kind = "mirror"
            if big_oop and dnum == ndec:
                kind, nrm_pat = "outofplane", geom.plane_normal(P, 3.0 * atol)
            for attempt in range(8):
                R = geom.random_rotation(rng)
                if kind == "mirror":
                    X = (P * np.array([1.0, 1.0, -1.0])) @ R.T
                elif kind in ("nearmiss", "gray"):
                    X = P @ R.T
                    amp = atol * (rng.uniform(4.0, 8.0) if kind == "nearmiss" else rng.uniform(0.6, 2.5))
                    j = rng.randrange(n)
                    d = np.array([rng.gauss(0, 1) for _ in range(3)])
                    X = X.copy()
                    if n > 1 and rng.random() < 0.5:
                        X[j] += d / np.linalg.norm(d) * amp * math.sqrt(n)
                    else:
                        X += np.array([[rng.gauss(0, 1) for _ in range(3)] for _ in range(n)]) * amp
                elif kind == "outofplane":
                    # one atom pushed out of the pattern's plane: pair distances change only to second order
                    X = P.copy()
                    amp = rng.uniform(1.3, 6.0)
                    if big_oop and dnum == ndec:
                        # large pattern: a single atom far outside the tolerance still leaves a small average deviation
                        amp = rng.uniform(3.6, max(3.7, 0.97 * math.sqrt(n)))
                    X[rng.randrange(n)] += nrm_pat * atol * rng.choice([-1, 1]) * amp
                    X = X @ R.T
                elif kind == "buckled":
                    # a planar pattern bent smoothly ALONG THE ATOM ORDER: consecutive atoms differ by less than the tolerance, the
                    # middle of the list ends up several tolerances out of the plane (pair distances change only to second order)
                    prof = np.array([min(i, n - 1 - i) for i in range(n)], float) * rng.uniform(max(0.6, min(0.93, 5.2 / (n - 1))), 0.95)
                    X = (P + np.outer(prof, nrm_pat) * atol * rng.choice([-1, 1])) @ R.T
                elif kind == "prefix_twin":
                    X = P @ R.T
                elif kind == "partial":
                    if n < 2:
                        break
                    X = (P @ R.T)[:n - 1]
                else:
                    X = np.array([[0.0, 0.0, 0.0]])
                X = X + random_translation(X, rng.choice([0, 1, 2, 3]))
                if place(X, kind, "random", 0, None, elems=twin_els if kind == "prefix_twin" else None):
                    break

    # shuffle atom order
    N = len(atoms_pos)
    perm = list(range(N))
    if rng.random() < 0.8:
        rng.shuffle(perm)
    inv = {old: new for new, old in enumerate(perm)}
    pos = geom.wrap(np.array([atoms_pos[i] for i in perm], float).reshape(-1, 3), cell) if N else np.zeros((0, 3))
    elements = [atoms_el[i] for i in perm]
    for p in planted:
        p["indices"] = [inv[i] for i in p["indices"]]

    pat = {"elements": list(els), "positions": P.tolist()}
    if rng.random() < 0.2:
        # a pattern cut out of a larger molecule keeps that molecule's whole type table: entries no pattern atom uses
        pat["table_extra"] = rng.sample(["Kr", "Xe", "Au", "Hg"], rng.randint(1, 2))
        pat["table_extra_first"] = rng.random() < 0.5
    return {
        "seed": rng.getrandbits(31),
        "cell": cell.tolist(),
        "elements": elements,
        "positions": pos.tolist(),
        "pattern": pat,
        "atol": atol,
        "hints": hints,
        "planted": planted,
        "scripts": default_scripts(rng, antiparallel=any(p["pose"] == "antiparallel" for p in planted)),
        "meta": {"family": family, "cell_family": cfam, "tight_axes": sorted(tight_axes), "K": K, "D": D, "axis_exact": axis_exact, "graze": graze},
    }


def build_structure(spec, **extra):
    from mofun import Atoms
    kw = dict(elements=list(spec["elements"]), positions=np.array(spec["positions"], float).reshape(-1, 3),
              cell=np.array(spec["cell"], float))
    kw.update(extra)
    return Atoms(**kw)


def build_pattern(pat, **extra):
    from mofun import Atoms
    kw = dict(elements=list(pat["elements"]), positions=np.array(pat["positions"], float).reshape(-1, 3))
    if pat.get("table_extra") and not extra:
        from mofun.atomic_masses import ATOMIC_MASSES
        els = list(pat["elements"])
        uniq = list(dict.fromkeys(els))
        table = (list(pat["table_extra"]) + uniq) if pat.get("table_extra_first") else (uniq + list(pat["table_extra"]))
        kw = dict(atom_types=[table.index(e) for e in els], atom_type_elements=list(table), atom_type_labels=list(table),
                  atom_type_masses=[ATOMIC_MASSES[e] for e in table], positions=kw["positions"])
    kw.update(extra)
    return Atoms(**kw)


def shrink_find_world(spec):
    """Candidate simplifications of a find-world spec (used by the minimiser)."""
    import copy
    # 1. fewer scripts
    if len(spec.get("scripts", [])) > 1:
        for i in range(len(spec["scripts"])):
            s = copy.deepcopy(spec)
            s["scripts"] = [spec["scripts"][i]]
            yield s
    # 2. drop planted groups / loose atoms
    N = len(spec["elements"])
    groups = [p["indices"] for p in spec.get("planted", [])]
    covered = {i for g in groups for i in g}
    groups = groups + [[i] for i in range(N) if i not in covered]
    for g in groups:
        if len(g) == N:
            continue
        yield drop_atoms(spec, set(g))
    # 3. single atoms
    if N <= 24:
        for i in range(N):
            yield drop_atoms(spec, {i})
    # 4. hints -> none
    if spec.get("hints"):
        s = copy.deepcopy(spec)
        s["hints"] = None
        yield s
    # 5. simpler scripts
    for i, sc in enumerate(spec.get("scripts", [])):
        for site in ("choice", "sample", "axis"):
            if sc.get(site, {}).get("kind") not in (None, "first", "mt") or (site != "axis" and sc.get(site, {}).get("kind") == "mt"):
                s = copy.deepcopy(spec)
                s["scripts"][i][site] = {"kind": "first"} if site != "axis" else {"kind": "mt"}
                yield s
    # 6. orthorhombic cell with the same diagonal (positions re-expressed through fractional coordinates)
    cell = np.array(spec["cell"], float)
    if not np.allclose(cell, np.diag(np.diag(cell))):
        s = copy.deepcopy(spec)
        newcell = np.diag(geom.perp_widths(cell) * 1.05)
        f = geom.frac(np.array(spec["positions"], float).reshape(-1, 3), cell)
        s["cell"] = newcell.tolist()
        s["positions"] = (f @ newcell).tolist()
        yield s


def drop_atoms(spec, drop):
    import copy
    s = copy.deepcopy(spec)
    keep = [i for i in range(len(spec["elements"])) if i not in drop]
    remap = {old: new for new, old in enumerate(keep)}
    s["elements"] = [spec["elements"][i] for i in keep]
    s["positions"] = [spec["positions"][i] for i in keep]
    for key in ("charges", "groups", "labels"):
        if key in spec and spec[key] is not None:
            s[key] = [spec[key][i] for i in keep]
    newp = []
    for p in spec.get("planted", []):
        if any(i in drop for i in p["indices"]):
            if all(i in drop for i in p["indices"]):
                continue
            p = dict(p, kind="partial", indices=[remap[i] for i in p["indices"] if i not in drop])
        else:
            p = dict(p, indices=[remap[i] for i in p["indices"]])
        newp.append(p)
    s["planted"] = newp
    if "bonds" in spec:
        for key, typ in (("bonds", "bond_types"), ("angles", "angle_types"), ("dihedrals", "dihedral_types"), ("impropers", "improper_types")):
            if key in spec:
                ks = [k for k, t in enumerate(spec[key]) if not any(i in drop for i in t)]
                s[key] = [[remap[i] for i in spec[key][k]] for k in ks]
                if typ in spec:
                    s[typ] = [spec[typ][k] for k in ks]
    return s
