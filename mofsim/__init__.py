"""mofsim - deterministic simulation with fault injection for WilmerLab/mofun.

One simulated run = one *world*: a pool of mofun.Atoms objects, a simulated disk, a scripted random source and a
set of call taps, driven by one integer.  See /verif/DESIGN.md.
"""
