"""C09 - Atoms objects stay consistent and type ids keep their meaning (stateful simulation with durable restarts)."""
import copy
import errno

import numpy as np

from .. import geom, machine, readers, refmodel, restart, seams
from ..core import Violation, HarnessError

ID = "C09"
RULE = ("one case = one operation history (5-25 operations: construct in 3 idioms, copy, subset, delete in any listing/container, delete "
        "every atom that carries a term kind, delete all, pop, extend default/with identity map/repeated with extend_types offsets, replicate, "
        "translate, durable restart through the simulated disk) over a pool of 2-4 objects that share a world configuration (term kinds, tables "
        "present or absent per kind, pair coefficients, extra columns); after EVERY step every object is compared with its reference-model twin "
        "and objects not involved must be bit-identical; in fault configurations saves meet ENOSPC/EIO/crash; distinct = distinct history hash; "
        "non-trivial = the history changed at least one object and at least 3 comparisons ran")
COMPONENTS = {"real": ["mofun.Atoms: constructor, copy, __getitem__, __delitem__, pop, extend, extend_types, replicate, translate, save/load, save_lmpdat/load_lmpdat",
                       "mofun.helpers.use_or_open", "numpy", "ordered_set"],
              "stub": ["file system: SimFS installed as mofun.helpers.open, SimTextFile handed to Atoms.save/load", "random module inside mofun (SimRandom; unused by these operations)"],
              "oracle_only": ["mofsim.refmodel.RefAtoms (reference model), abstraction function, structural invariants", "mofsim.readers strict LAMMPS data reader"]}
ASSUMPTIONS = ["all objects of one world agree per term kind on whether coefficient tables exist (the compatibility condition of C06/C11)",
               "elements are never compared across a LAMMPS restart (re-derived from masses: C14's subject)",
               "explicit zero offsets are used only between objects with identical type tables (as Atoms.replicate does)",
               "under an injected write fault the only demands are: the error surfaces, the in-memory object is unchanged, a clean retry succeeds"]
NRUNS = {"quick": 6000, "thorough": 100000}
MUST_REACH = ["restarts", "emptied_kind_then_extended", "all_atoms_deleted", "repeated_extension", "op_extend", "op_delete", "faults_fired", "history_replacements", "cif_restarts"]


def generate(rng, tier):
    w = {"copy": 1, "subset": 1, "delete": 4, "delete_touching": 2, "delete_all": 0.6, "pop": 1, "translate": 0.7, "extend": 6, "replicate": 1,
         "restart": 2, "replace": 1.5, "assign": 1.5}
    spec = machine.gen_world(rng, nobj=(2, 4), nops=(4, 22), overlay=0.25, empty_prob=0.07, weights=w)
    faults = rng.random() < 0.3
    if faults:
        for op in spec["ops"]:
            if op["op"] == "restart" and rng.random() < 0.7:
                op["fault"] = rng.choice([{"enospc_after": rng.randint(0, 900)}, {"eio_after": rng.randint(0, 900)}, {"enospc_at_close": rng.choice([0.0, 0.5, 1.0])},
                                          {"crash": "lost"}, {"crash": "torn", "torn_at": rng.randint(1, 600)}])
    spec["faults"] = faults
    return spec


def execute(spec, ctx):
    fs = seams.install_fs(ctx)
    seams.install_random(ctx, {"seed": spec["seed"]})
    pool = machine.build_pool(spec, ctx, "c09")
    changed = machine.run_history(pool, spec["ops"], ctx, "c09", on_restart=lambda pool, op, k: _restart(ctx, fs, pool, op, k))
    if seams.global_rng_touched(ctx):
        ctx.count("global_rng_touched")
    # end of history: every non-empty object can be written and reads back to the same structure
    for i, (r, m) in enumerate(zip(pool.real, pool.model)):
        if r is not None and len(m.atoms) and i < 3:
            restart.restart_lmpdat(ctx, fs, r, m, "final%d" % i, style="full", via_save="path", via_load="file", prefix="c09")
    # ... and one object per history also goes through a CIF restart (what a CIF carries is compared; oracles of C15)
    from . import c15
    for i, (r, m) in enumerate(zip(pool.real, pool.model)):
        if r is not None and len(m.atoms) and m.cell is not None and not any(len(set(t.atoms)) != len(t.atoms) for k in refmodel.KINDS for t in m.terms[k]):
            mm = m.clone()
            # per-improper extra columns have no place in a CIF; per-kind labels that are not CIF-like are still written verbatim
            t1, p1 = c15._save(ctx, fs, r, "path", "cif%d" % i, True)
            re1 = c15._load(ctx, fs, p1, "file")
            c15._check_reload(ctx, re1, mm, True, "CIF restart at the end of a history")
            ctx.count("cif_restarts")
            break
    if changed and ctx.counters.get("comparisons", 0) >= 3:
        ctx.key(spec["objects"], spec["ops"])


def _restart(ctx, fs, pool, op, k):
    o = op["obj"] % len(pool.real)
    r, m = pool.real[o], pool.model[o]
    if len(m.atoms) == 0:
        return set()
    fault = op.get("fault")
    name = "obj%d_step%d" % (o, k)
    if fault:
        return _faulty_save(ctx, fs, pool, o, op, name, fault)
    via_s = op.get("via", "path")
    via_l = {"path": "path", "file": "file", "save_lmpdat": "load_lmpdat"}[via_s]
    re, rem = restart.restart_lmpdat(ctx, fs, r, m, name, style=op.get("style", "full"), via_save=via_s, via_load=via_l, prefix="c09",
                                      pathkind=op.get("pathkind", "std"), same_handle=op.get("same_handle", False))
    if re is None:
        return set()
    if op.get("keep"):
        # the object that was written stays in use (and may be written again after further operations)
        ctx.count("writes_keeping_the_object")
        return set()
    pool.real[o], pool.model[o] = re, rem
    return {o}


def _faulty_save(ctx, fs, pool, o, op, name, fault, prefix="c09"):
    """Fault configurations: the failed save must raise (not be swallowed), leave the in-memory object and its model equal,
    and a clean retry must then succeed.  Reloading a torn/lost file: no verdict."""
    from .. import replcheck
    r, m = pool.real[o], pool.model[o]
    if not restart.lmp_oriented(m.cell):
        return set()
    style = op.get("style", "full")
    before = replcheck.snapshot(r)
    path = "/sim/%s.lmpdat" % name
    if "crash" in fault:
        fh = fs.writer(path, script={"torn_at": fault.get("torn_at")} if fault["crash"] == "torn" else {})
        try:
            r.save(fh, filetype="lmpdat", atom_format=style)
        except Exception as e:
            raise Violation("raises:%s" % type(e).__name__, "saving to an open file: %s" % e, site="save_lmpdat")
        if fault["crash"] == "torn":
            fh.flush()
        lost = fs.crash()
        ctx.count("faults_fired")
        ctx.count("crash_%s" % fault["crash"])
        durable = fs.files.get(path, "")
        ctx.event("fault", "crash", fault["crash"], len(durable), lost)
        # restart from the durable text: may raise or return anything - discarded
        if durable:
            try:
                restart.load_lmpdat(ctx, fs, path, "file", style)
                ctx.count("torn_file_loaded_without_error")
            except Exception:
                ctx.count("torn_file_rejected")
    else:
        fired_before = fs.stats.get("enospc_fired", 0) + fs.stats.get("eio_fired", 0)
        raised = None
        try:
            restart.save_lmpdat(ctx, fs, r, "path" if op.get("via") == "path" else "file", style, name, prefix, fault=fault)
        except OSError as e:
            raised = e
        except Violation:
            raise
        except Exception as e:
            raise Violation(prefix + ":write-fault-misreported", "an injected write error surfaced as %s: %s" % (type(e).__name__, e), site="save_lmpdat")
        fs.script = dict(fs.script, write={})
        fired = fs.stats.get("enospc_fired", 0) + fs.stats.get("eio_fired", 0) - fired_before
        if fired:
            ctx.count("faults_fired")
            if raised is None:
                raise Violation(prefix + ":write-error-swallowed", "the disk reported %s during save but the call returned normally" % fault, site="save_lmpdat")
            for h in fs.open_handles:
                if h.path_ == path and h.mode_ != "r" and not h.closed_ and op.get("via") == "path":
                    raise Violation(prefix + ":file-left-open", "after a failed save to a path the file handle is still open", site="save")
        elif raised is not None:
            raise Violation("raises:%s" % type(raised).__name__, "save raised without an injected fault: %s" % raised, site="save_lmpdat")
    if replcheck.snapshot(r) != before:
        raise Violation(prefix + ":save-modified-object", "a (failed) save changed the in-memory object", site="save_lmpdat")
    # clean retry
    re, rem = restart.restart_lmpdat(ctx, fs, r, m, name + "_retry", style=style, via_save="path", via_load="path", prefix=prefix)
    ctx.count("clean_retries")
    return set()


shrink = machine.shrink_history


def sample_summary(spec):
    return {"cfg": spec["cfg"], "objects": [{k: o.get(k) for k in ("name", "idiom", "empty", "atom_types", "atom_type_labels", "bonds", "bond_types", "bond_type_coeffs")} for o in spec["objects"]],
            "ops": spec["ops"], "faults": spec["faults"]}
