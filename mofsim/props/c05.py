"""C05 - inserted atoms land where the replacement pattern says, modulo the lattice."""
import copy
import math

import numpy as np

from .. import findcheck, geom, replcheck, seams, worlds
from ..core import Violation
from . import c04

ID = "C05"
RULE = ("one case = one generated periodic world (emphasis: triclinic cells of either tilt sign, copies through faces/edges/corners, symmetric "
        "and collinear search patterns, replacements that insert new atoms) replaced under 3 scripts of the random seam, plus one run with both "
        "patterns moved jointly by a random rigid motion; distinct = distinct world hash; non-trivial = at least one inserted atom was checked "
        "against the joint rigid-image oracle")
COMPONENTS = c04.COMPONENTS
ASSUMPTIONS = ["placement bound: a proper rigid motion must map search+replacement coordinates onto matched+inserted positions within "
               "3*K*eps*sqrt(n) + 1e-6*(1+reach) (eps = noise actually planted, K*eps <= atol/2, so the bound is proportional to the tolerance)",
               "joint-motion equality is compared only when no tie-break had more than one candidate in EITHER run (with a symmetric search pattern the set of "
               "numerically valid orderings can depend on the pose; which of them is taken is the random generator's choice, so each run is judged on its own)"]
NRUNS = {"quick": 4000, "thorough": 60000}
MUST_REACH = ["inserted_atoms_checked", "triclinic_worlds", "inserted_atoms_needed_wrapping", "joint_motion_comparisons"]


def generate(rng, tier):
    spec = replcheck.gen_replace_world(
        rng, cell_families=["ortho", "tri_pos", "tri_neg", "tri_mixed", "tri_mixed", "tri_rotated", "tri_upper", "tri_left"], allow_rotated=True, moderate_noise=False,
        families=["pair", "collinear", "collinear", "planar", "asymmetric", "c2", "c3", "c6", "td", "chiral", "single", "cs", "bent"])
    P = np.array(spec["pattern"]["positions"], float).reshape(-1, 3)
    spec["replace"] = replcheck.gen_replacement(rng, spec["pattern"]["elements"], P,
                                                mode=rng.choice(["larger", "larger", "disjoint", "equal_subst", "smaller", "larger", "relaxed"]))
    spec["fraction"] = rng.choice([1.0, 1.0, 1.0, 0.5, 0.7])
    spec["joint"] = {"R": geom.random_rotation(rng).tolist(), "t": [rng.uniform(-15, 15) for _ in range(3)]}
    return spec


placement_oracle = replcheck.placement_oracle
multiset_mod_lattice_equal = replcheck.multiset_mod_lattice_equal


def execute(spec, ctx):
    findcheck.check_domain(spec)
    findcheck.world_reach_counters(ctx, spec)
    structure = replcheck.build_structure(spec)
    search = worlds.build_pattern(spec["pattern"])
    replace = replcheck.build_replacement(spec["replace"])
    seams.install_random(ctx, spec["scripts"][0])
    cell = np.array(spec["cell"], float)
    checked_total = 0
    first = None
    for k, script in enumerate(spec["scripts"][:3]):
        ties0 = ctx.counters.get("tie_breaks_with_more_than_one_candidate", 0)
        run = replcheck.run_replace(ctx, structure, search, replace, spec, script)
        if run.exc is not None:
            if c04._is_overlap_error(run.exc):
                ctx.count("overlap_error_left_to_C07")
                continue
            raise Violation("raises:%s" % type(run.exc).__name__, str(run.exc), site="replace_pattern_in_structure")
        if run.found is None or len(run.selected) != run.reported:
            ctx.count("selection_not_observed")
            continue
        sel = [run.found[0][i] for i in run.selected]
        if replcheck.overlapping(sel):
            ctx.count("overlapping_selection_left_to_C07")
            continue
        acc = replcheck.account(ctx, spec, structure, run, prefix="c05")
        n = placement_oracle(ctx, spec, structure, run, acc)
        checked_total += n
        ctx.count("inserted_atoms_checked", n)
        if k == 0:
            first = (run, ctx.counters.get("tie_breaks_with_more_than_one_candidate", 0) - ties0)
    # a second replacement on an object that went through other operations after the first one: the result of the first
    # replacement is replicated, then the inserted groups are replaced back (state cached on the object must not survive)
    if first is not None and spec["seed"] % 3 == 0 and spec["fraction"] == 1.0 and len(spec["replace"]["elements"]) >= 2 \
            and len(first[0].result) * 2 <= 120 and not spec["replace"].get("cell"):
        _second_phase(ctx, spec, first[0])
    # joint rigid motion of both patterns must not change the result
    if first is not None and spec.get("joint"):
        run0, ties = first
        Rj, tj = np.array(spec["joint"]["R"], float), np.array(spec["joint"]["t"], float)
        sp2 = copy.deepcopy(spec["pattern"])
        rp2 = copy.deepcopy(spec["replace"])
        sp2["positions"] = (np.array(sp2["positions"], float).reshape(-1, 3) @ Rj.T + tj).tolist()
        if len(rp2["elements"]):
            rp2["positions"] = (np.array(rp2["positions"], float).reshape(-1, 3) @ Rj.T + tj).tolist()
        search2 = worlds.build_pattern(sp2)
        replace2 = replcheck.build_replacement(rp2)
        spec2 = dict(spec, pattern=sp2, replace=rp2)
        ties_before2 = ctx.counters.get("tie_breaks_with_more_than_one_candidate", 0)
        run2 = replcheck.run_replace(ctx, structure, search2, replace2, spec2, spec["scripts"][0])
        ties = ties + (ctx.counters.get("tie_breaks_with_more_than_one_candidate", 0) - ties_before2)
        if run2.exc is not None and c04._is_overlap_error(run2.exc):
            ctx.count("overlap_error_left_to_C07")       # with a symmetric pattern the chosen ordering decides which atoms are shared
        elif run2.exc is not None:
            raise Violation("raises:%s" % type(run2.exc).__name__, "after moving both patterns jointly: %s" % run2.exc, site="replace_pattern_in_structure")
        if run2.found is not None and len(run2.selected) == run2.reported and not replcheck.overlapping([run2.found[0][i] for i in run2.selected]):
            acc2 = replcheck.account(ctx, spec2, structure, run2, prefix="c05")
            n = placement_oracle(ctx, spec2, structure, run2, acc2)
            ctx.count("inserted_atoms_checked", n)
            checked_total += n
            if ties == 0 and run0.reported == run2.reported and sorted(run0.selected) == sorted(run2.selected):
                Ps = np.array(spec["pattern"]["positions"], float).reshape(-1, 3)
                Pr_all = np.array(spec["replace"]["positions"], float).reshape(-1, 3)
                K = geom.amplification_K(Ps, spec["hints"], extra=Pr_all)
                eps = max([p["eps"] or 0.0 for p in spec["planted"] if p["kind"] == "copy"] + [0.0])
                accidental = not math.isfinite(K)       # frame not determined by the search pattern: nothing to compare
                if accidental:
                    ctx.count("joint_motion_frame_undetermined")
                for si in run0.selected:
                    if len(Ps) > 1:
                        _, _, dev0 = geom.kabsch(Ps, np.asarray(run0.found[1][si], float))
                        if dev0.max() > eps * 1.001 + 1e-9:
                            accidental = True
                if not accidental:
                    nall = len(Ps) + len(spec["replace"]["elements"])
                    tol = 2 * (3.0 * K * eps * math.sqrt(nall)) + 2e-6 * (1 + geom.diameter(np.vstack([Ps, np.array(spec["replace"]["positions"], float).reshape(-1, 3)]) if len(spec["replace"]["elements"]) else Ps))
                    ok, why = multiset_mod_lattice_equal(list(run0.result.elements), np.array(run0.result.positions, float),
                                                         list(run2.result.elements), np.array(run2.result.positions, float), cell, tol)
                    if not ok:
                        raise Violation("c05:joint-motion-changes-result", "moving search and replacement pattern together changed the result: %s" % why, site="replace")
                    ctx.count("joint_motion_comparisons")
    if checked_total:
        ctx.key(spec["cell"], spec["positions"], spec["pattern"], spec["replace"])


def _second_phase(ctx, spec, run0):
    dims = [(2, 1, 1), (1, 2, 1), (1, 1, 2), (1, 1, 1)][spec["seed"] % 4]
    try:
        r2 = run0.result.replicate(dims)
    except Exception as e:
        raise Violation("raises:%s" % type(e).__name__, "replicate%s of a replacement result: %s" % (dims, e), site="replicate")
    Ps = np.array(spec["pattern"]["positions"], float).reshape(-1, 3)
    K = geom.amplification_K(Ps, spec["hints"])
    eps = max([p["eps"] or 0.0 for p in spec["planted"] if p["kind"] == "copy"] + [0.0])
    back_pat = {"elements": list(spec["replace"]["elements"]), "positions": [list(p) for p in spec["replace"]["positions"]]}
    back_rep = {"elements": list(spec["pattern"]["elements"]), "positions": [list(p) for p in spec["pattern"]["positions"]], "charges": None, "groups": None, "mode": "back"}
    spec2 = dict(spec, cell=np.array(r2.cell, float).tolist(), positions=np.array(r2.positions, float).tolist(), elements=list(r2.elements),
                 pattern=back_pat, replace=back_rep, hints=None, fraction=1.0, replace_all=False,
                 planted=[{"kind": "copy", "eps": K * eps, "indices": [], "pose": "derived", "boundary": 0}])
    try:
        findcheck.check_domain(spec2)
    except Exception:
        return
    search2 = worlds.build_pattern(back_pat)
    replace2 = replcheck.build_replacement(back_rep)
    run2 = replcheck.run_replace(ctx, r2, search2, replace2, spec2, spec["scripts"][0], hints=None)
    if run2.exc is not None:
        if c04._is_overlap_error(run2.exc):
            return
        raise Violation("raises:%s" % type(run2.exc).__name__, "second replacement after replicate%s: %s" % (dims, run2.exc), site="replace_pattern_in_structure")
    if run2.found is None or len(run2.selected) != run2.reported or replcheck.overlapping([run2.found[0][i] for i in run2.selected]):
        return
    acc2 = replcheck.account(ctx, spec2, r2, run2, prefix="c05")
    n = placement_oracle(ctx, spec2, r2, run2, acc2)
    ctx.count("second_phase_inserted_atoms_checked", n)
    ctx.count("second_phases")


shrink = c04.shrink
sample_summary = c04.sample_summary
