"""C15 - P1 CIF files round-trip (writer -> simulated disk -> independent reader + mofun reader; hand-made CIF texts for the reader)."""
import copy
import io
import math
import re

import numpy as np

from .. import geom, machine, readers, refmodel, replcheck, restart, seams
from ..core import Violation, HarnessError
from ..refmodel import KINDS, PLURAL

ID = "C15"
RULE = ("one case = one generated structure (1-12 atoms, cell of any family incl. unreduced tilts and - for fractional output - arbitrarily rotated; "
        "any terms; extra columns per atom/bond/angle/torsion; coordinates inside, outside and exactly on the cell boundary) written as P1 CIF in "
        "fractional or Cartesian form through Atoms.save(path)/save(file)/save_p1_cif onto the simulated disk, inspected by an independent CIF "
        "tokenizer, re-read through path / simulated streams (scripted chunking), re-written twice (T2 == T3), compared with ASE's reader; PLUS one "
        "hand-made CIF text (standard-uncertainty parentheses, Cartesian or fractional, coordinates far outside the cell, P1 / non-P1 space-group "
        "names) fed to the reader; distinct = distinct case hash; non-trivial = the structure has a triclinic cell, terms or extra columns")
COMPONENTS = {"real": ["Atoms.save / save_p1_cif / load / load_p1_cif", "PyCifRW 5.0.1 (CifFile.ReadCif / WriteOut)", "ase.geometry.cellpar_to_cell", "ase.io cif reader (as the independent reader of the last clause)"],
              "stub": ["file system: SimFS as mofun.helpers.open; SimTextFile objects passed to save/load"],
              "oracle_only": ["mofsim.readers.read_cif_simple (independent tokenizer)", "harness' own cell-parameter and fractional-coordinate arithmetic"]}
ASSUMPTIONS = ["printed precision: fractional coordinates 4 decimals (compared modulo 1 with circular tolerance 0.51e-4), angles 4 decimals, lengths and charges full repr",
               "atom type labels are not part of a CIF (labels are regenerated as <element><n>) and are not compared",
               "Cartesian output is exercised only for cells in the standard orientation (a CIF stores lengths and angles only)"]
NRUNS = {"quick": 6000, "thorough": 80000}
RUN_TIMEOUT = 120.0
MUST_REACH = ["cif_roundtrips", "rewrite_stable_checks", "handmade_texts", "nonp1_rejected", "su_parentheses", "cartesian_files", "ase_agreement_checks", "triclinic_cells", "faults_fired"]

XL = {"atom": "_atom_site_x_%s", "bond": "_geom_bond_x_%s", "angle": "_geom_angle_x_%s", "dihedral": "_geom_torsion_x_%s"}
XNAMES = ["order", "dist", "ff10", "ff2", "0", "Zeta", "11"]     # in no alphabetical order: the file order is what must survive


def generate(rng, tier):
    cfg = machine.gen_cfg(rng, restartable=False)
    cfg["cell_family"] = rng.choice(["ortho", "cubic", "tri_pos", "tri_neg", "tri_mixed", "tri_big", "tri_rotated"])
    cfg["pair"] = False
    cfg["tabled"] = {k: False for k in KINDS}
    cfg["xlabels"] = {k: ([XL[k] % s_ for s_ in rng.sample(XNAMES, rng.randint(1, 3))] if (k in XL and rng.random() < 0.4) else []) for k in refmodel.XKINDS}
    cfg["table_container"] = "list"
    cell = geom.make_cell(rng, cfg["cell_family"], rng.uniform(5, 12), [], roomy=(1.0, 1.5)).tolist()
    fs = machine.gen_fragment(rng, cfg, "s", natoms=rng.randint(1, 12), cell=cell, elements=rng.sample(machine.SAFE_ELEMENTS, rng.randint(1, 4)))
    c = np.array(cell, float)
    # coordinates anywhere: shift some atoms by lattice vectors, put some exactly on / next to the boundary
    for j in range(len(fs["positions"])):
        r = rng.random()
        if r < 0.3:
            fs["positions"][j] = (np.array(fs["positions"][j]) + np.array([rng.randint(-2, 2) for _ in range(3)]) @ c).tolist()
        elif r < 0.55:
            f = np.array([rng.choice([0.0, -0.0, 1.0, 0.99996, 0.5, 0.00004, -0.00004, -1e-7, 1e-7, 0.99995, 0.00005, 1.00001, 2.00003, -0.99997, 1.0 + rng.random(), -rng.random(),
                                     rng.random()]) for _ in range(3)])
            fs["positions"][j] = (f @ c).tolist()
    standard = cfg["cell_family"] != "tri_rotated"
    case = {"fract": True if not standard else rng.random() < 0.7, "via_save": rng.choice(["path", "file", "save_p1_cif"]),
            "via_load": rng.choice(["path", "file", "load_p1_cif"]),
            "read_script": rng.choice([None, {"chunk": "random", "seed": rng.getrandbits(16)}, {"chunk": "prime"}]),
            "write_fault": rng.choice([{"enospc_after": rng.randint(0, 1500)}, {"eio_after": rng.randint(0, 1500)}, {"enospc_at_close": rng.choice([0.0, 0.5, 1.0])}]) if rng.random() < 0.2 else None,
            "read_fault": rng.random() if rng.random() < 0.2 else None,
            "pathkind": rng.choice(["std", "std", "odd_ext", "pathlib", "dotted"]), "same_handle": rng.random() < 0.3}
    # hand-made text
    n = rng.randint(1, 8)
    hcell = geom.make_cell(rng, rng.choice(["ortho", "tri_pos", "tri_neg", "tri_mixed"]), rng.uniform(5, 12), [], roomy=(1.0, 1.5))
    hm = {"n": n, "cell": hcell.tolist(), "elements": [rng.choice(machine.SAFE_ELEMENTS) for _ in range(n)],
          "frac": [[round(rng.uniform(-2.6, 3.4) if rng.random() < 0.4 else rng.random(), 5) for _ in range(3)] for _ in range(n)],
          "cartesian": rng.random() < 0.3, "su": rng.random() < 0.5, "su_some": rng.choice([0, 0, rng.getrandbits(16) + 1]), "charges": [round(rng.uniform(-1, 1), 3) for _ in range(n)] if rng.random() < 0.5 else None,
          "sg": rng.choice(["P 1", "P1", "P 1", None, "P -1", "P 21/c", "F m -3 m", "P 1 21 1", "C 2/m"]),
          "bonds": [rng.sample(range(n), 2) for _ in range(rng.randint(0, 4))] if n > 1 else [],
          "extra": rng.random() < 0.4, "label_style": rng.choice(["el_n", "n_el", "X"]), "read_script": rng.choice([None, {"chunk": "random", "seed": rng.getrandbits(16)}])}
    return {"seed": rng.getrandbits(31), "cfg": cfg, "structure": fs, "case": case, "handmade": hm,
            "then_replicate": rng.choice([[2, 1, 1], [1, 2, 1], [1, 1, 2], [2, 1, 2]]) if rng.random() < 0.3 else None}


# ---------------------------------------------------------------------------------------------------------------

def cellpar(cell):
    c = np.array(cell, float)
    la, lb, lc = (float(np.linalg.norm(c[i])) for i in range(3))
    ang = lambda u, v: math.degrees(math.acos(max(-1.0, min(1.0, float(np.dot(u, v) / (np.linalg.norm(u) * np.linalg.norm(v)))))))
    return la, lb, lc, ang(c[1], c[2]), ang(c[0], c[2]), ang(c[0], c[1])


def circ(a, b):
    d = np.abs(np.asarray(a, float) - np.asarray(b, float)) % 1.0
    return np.minimum(d, 1.0 - d)


def _save(ctx, fs, real, via, name, fract, pathkind="std"):
    path = ("/sim/%s.rev.1.cif" if pathkind == "dotted" else "/sim/%s.cif") % name if pathkind != "odd_ext" else "/sim/%s.cif.%s" % (name, ("bak", "lmpdat", "1", "txt")[len(name) % 4])
    try:
        if via == "path":
            if pathkind == "odd_ext":
                ctx.count("explicit_filetype_over_extension")
                real.save(path, filetype="cif", use_fract_coords=fract)
            else:
                real.save(restart.path_arg(path, pathkind), use_fract_coords=fract)
            hs = [h for h in fs.open_handles if h.path_ == path and h.mode_ != "r"]
            if hs and not hs[-1].closed_:
                raise Violation("c15:file-left-open", "Atoms.save(path) returned normally but left the file open", site="save_p1_cif")
        else:
            fh = fs.writer(path)
            if via == "file":
                real.save(fh, filetype="cif", use_fract_coords=fract)
            else:
                real.save_p1_cif(fh, use_fract_coords=fract)
            fh.close()
    except Violation:
        raise
    except Exception as e:
        raise Violation("raises:%s" % type(e).__name__, "writing a structure as P1 CIF: %s" % e, site="save_p1_cif")
    return fs.files[path], path


def _same_handle(ctx, fs, real, via_save, via_load, name, fract):
    """The caller's own read/write stream: written, rewound and read back through one handle."""
    from mofun import Atoms
    path = "/sim/%s.cif" % name
    try:
        fh = fs.rw(path)
        if via_save == "file":
            real.save(fh, filetype="cif", use_fract_coords=fract)
        else:
            real.save_p1_cif(fh, use_fract_coords=fract)
        try:
            fh.seek(0)
        except ValueError as e:
            raise Violation("c15:callers-stream-closed", "writing to the caller's open read/write stream closed it: rewinding and reading it back fails (%s)" % e, site="save_p1_cif")
        text = fs.files[path]
        re = Atoms.load(fh, filetype="cif") if via_load == "file" else Atoms.load_p1_cif(fh)
        try:
            fh.seek(0)
        except ValueError as e:
            raise Violation("c15:callers-stream-closed", "reading from the caller's open stream closed it (%s)" % e, site="load_p1_cif")
        fh.close()
    except Violation:
        raise
    except Exception as e:
        raise Violation("raises:%s" % type(e).__name__, "writing a P1 CIF to / reading it back from the caller's read/write stream: %s" % e, site="save_p1_cif")
    ctx.count("same_handle_roundtrips")
    return text, path, re


def _load(ctx, fs, path, via, read_script=None, expect_error=False, pathkind="std"):
    from mofun import Atoms
    try:
        if via == "path":
            fs.script = dict(fs.script, read=read_script or {})
            try:
                if not path.endswith(".cif"):
                    return Atoms.load(path, filetype="cif")
                return Atoms.load(restart.path_arg(path, pathkind))
            finally:
                fs.script = dict(fs.script, read={})
        fh = fs.reader(fs.files[path], name=path, script=read_script or {})
        try:
            return Atoms.load(fh, filetype="cif") if via == "file" else Atoms.load_p1_cif(fh)
        finally:
            fh.close()
    except Exception as e:
        if expect_error:
            return e
        raise Violation("raises:%s" % type(e).__name__, "reading a P1 CIF: %s" % e, site="load_p1_cif")


def _check_text(ctx, text, m, fract):
    """Independent tokenizer's view of the written file."""
    def bad(cls, msg):
        raise Violation("c15:%s" % cls, msg, site="save_p1_cif")
    try:
        d = readers.read_cif_simple(text)
    except readers.FormatError as e:
        bad("file-malformed", "written CIF cannot be tokenised: %s" % e)
    it = d["items"]
    if it.get("_symmetry_space_group_name_h-m") not in ("P 1", "P1"):
        bad("file-spacegroup", "space group name written as %r" % it.get("_symmetry_space_group_name_h-m"))
    want = cellpar(m.cell)
    prec = {"cell": []}
    for key, w in zip(["_cell_length_a", "_cell_length_b", "_cell_length_c", "_cell_angle_alpha", "_cell_angle_beta", "_cell_angle_gamma"], want):
        if key not in it:
            bad("file-cell", "%s missing" % key)
        # printed precision is read off the token; values printed with >= 9 significant decimals are compared relatively
        tol = max(readers.half_unit(readers.decimals(it[key])), 1e-9 * max(1.0, abs(w)))
        prec["cell"].append(tol)
        if abs(float(it[key]) - w) > tol:
            bad("file-cell", "%s written as %r, structure has %.6f" % (key, it.get(key), w))
    loop = next((l for l in d["loops"] if "_atom_site_type_symbol" in l), None)
    if loop is None:
        bad("file-atom-loop", "no atom loop")
    n = len(m.atoms)
    if len(loop["_atom_site_type_symbol"]) != n:
        bad("file-atom-count", "%d atoms written, structure has %d" % (len(loop["_atom_site_type_symbol"]), n))
    labels = loop.get("_atom_site_label", [])
    if len(set(labels)) != n:
        bad("file-atom-labels", "atom labels are not unique: %s" % labels)
    pos = np.array([a.pos for a in m.atoms]).reshape(-1, 3)
    tags = ["_atom_site_fract_x", "_atom_site_fract_y", "_atom_site_fract_z"] if fract else ["_atom_site_cartn_x", "_atom_site_cartn_y", "_atom_site_cartn_z"]
    if not all(t in loop for t in tags):
        bad("file-coordinates", "coordinate columns %s missing (have %s)" % (tags, sorted(loop)))
    got = np.array([[float(loop[t][i]) for t in tags] for i in range(n)]).reshape(-1, 3)
    wantc = pos @ np.linalg.inv(np.array(m.cell, float)) if fract else pos
    prec["coord"] = readers.half_unit(min([readers.decimals(loop[t][i]) for t in tags for i in range(n)] or [4]))
    if n and np.abs(got - wantc).max() > prec["coord"]:
        i = int(np.argmax(np.abs(got - wantc).max(axis=1)))
        bad("file-coordinates", "atom %d written at %s, structure has %s" % (i, got[i].tolist(), wantc[i].tolist()))
    for i, a in enumerate(m.atoms):
        if loop["_atom_site_type_symbol"][i] != a.el:
            bad("file-element", "atom %d written as %s, structure has %s" % (i, loop["_atom_site_type_symbol"][i], a.el))
        if "_atom_site_charge" not in loop or abs(float(loop["_atom_site_charge"][i]) - a.charge) > 1e-12:
            bad("file-charge", "atom %d charge written as %r, structure has %r" % (i, loop.get("_atom_site_charge", [None] * n)[i], a.charge))
        for lab, v in a.extras.items():
            if loop.get(lab.lower(), [None] * n)[i] != v:
                bad("file-atom-extra", "atom %d column %s written as %r, structure has %r" % (i, lab, loop.get(lab.lower(), [None] * n)[i], v))
    lab2i = {l: i for i, l in enumerate(labels)}
    for kind, prefix, ar in (("bond", "_geom_bond_atom_site_label_", 2), ("angle", "_geom_angle_atom_site_label_", 3), ("torsion", "_geom_torsion_atom_site_label_", 4)):
        terms = m.terms[kind] if kind != "torsion" else m.terms["dihedral"] + m.terms["improper"]
        loop = next((l for l in d["loops"] if prefix + "1" in l), None)
        if not terms:
            if loop is not None and len(loop[prefix + "1"]):
                bad("file-%s-invented" % kind, "%d %s entries written, structure has none" % (len(loop[prefix + "1"]), kind))
            continue
        if loop is None:
            bad("file-%s-missing" % kind, "structure has %d %ss, file has no such loop" % (len(terms), kind))
        rows = [tuple(lab2i.get(loop[prefix + str(c + 1)][r]) for c in range(ar)) for r in range(len(loop[prefix + "1"]))]
        if rows != [t.atoms for t in terms]:
            bad("file-%s" % kind, "%s loop joins %s..., structure has %s..." % (kind, rows[:3], [t.atoms for t in terms][:3]))
        xkind = "dihedral" if kind == "torsion" else kind
        for r, t in enumerate(terms if kind != "torsion" else m.terms["dihedral"]):
            for lab, v in t.extras.items():
                if loop.get(lab.lower(), [None] * len(rows))[r] != v:
                    bad("file-%s-extra" % kind, "%s %d column %s written as %r, structure has %r" % (kind, r, lab, loop.get(lab.lower(), [None] * len(rows))[r], v))
    return prec


def _check_reload(ctx, re_, m, fract, where, prec=None):
    prec = prec or {"coord": 0.51e-4, "cell": [1e-9, 1e-9, 1e-9, 5.1e-5, 5.1e-5, 5.1e-5]}
    def bad(cls, msg):
        raise Violation("c15:%s" % cls, "%s (%s)" % (msg, where), site="load_p1_cif")
    refmodel.structural_invariants(re_, where)
    n = len(m.atoms)
    if len(re_) != n:
        bad("atom-count", "%d atoms read back, structure has %d" % (len(re_), n))
    if list(re_.elements) != [a.el for a in m.atoms]:
        bad("elements", "elements read back %s, structure has %s" % (list(re_.elements)[:6], [a.el for a in m.atoms][:6]))
    if re_.cell is None:
        bad("cell", "no cell read back")
    got, want = cellpar(re_.cell), cellpar(m.cell)
    for g, w, tol in zip(got, want, prec["cell"]):
        if abs(g - w) > 2.2 * max(tol, 1e-9 * max(1.0, abs(w))):
            bad("cell", "cell parameters read back %s, structure has %s" % (got, want))
    pos = np.array([a.pos for a in m.atoms]).reshape(-1, 3)
    rp = np.asarray(re_.positions, float).reshape(-1, 3)
    if fract:
        f0 = pos @ np.linalg.inv(np.array(m.cell, float))
        f1 = rp @ np.linalg.inv(np.array(re_.cell, float))
        if n and circ(f0, f1).max() > prec["coord"] * 1.02:
            i = int(np.argmax(circ(f0, f1).max(axis=1)))
            bad("fractional-coordinates", "atom %d read back at fractional %s, structure has %s (modulo 1)" % (i, f1[i].tolist(), f0[i].tolist()))
        if n and (f1.min() < -1e-9 or f1.max() > 1 + 1e-9):
            bad("not-wrapped", "fractional coordinates after reading are outside [0,1]: min %.6g max %.6g" % (f1.min(), f1.max()))
    else:
        if n and np.abs(rp - pos).max() > prec["coord"]:
            bad("cartesian-coordinates", "positions read back differ from the structure by %.3g" % np.abs(rp - pos).max())
    for i, a in enumerate(m.atoms):
        if abs(float(re_.charges[i]) - a.charge) > 1e-12:
            bad("charge", "atom %d charge read back %r, structure has %r" % (i, re_.charges[i], a.charge))
    ra = refmodel.abstract(re_)
    for k, terms in (("bond", m.terms["bond"]), ("angle", m.terms["angle"]), ("dihedral", m.terms["dihedral"] + m.terms["improper"])):
        got = [t.atoms for t in ra.terms[k]]
        if got != [t.atoms for t in terms]:
            bad("%ss" % k, "%ss read back %s..., structure has %s... (torsions = dihedrals followed by impropers)" % (k, got[:3], [t.atoms for t in terms][:3]))
    if ra.terms["improper"]:
        bad("impropers", "impropers read back from a CIF")
    # extra columns
    for k in ("atom", "bond", "angle", "dihedral"):
        nterms = len(m.atoms) if k == "atom" else len(m.terms[k]) + (len(m.terms["improper"]) if k == "dihedral" else 0)
        if nterms == 0:
            continue            # a loop without rows is not written: its column labels cannot survive
        wl = [l.lower() for l in m.xlabels[k]]
        gl = [l.lower() for l in ra.xlabels[k]]
        if sorted(gl) != sorted(wl):
            bad("extra-labels", "extra %s columns read back %s, structure has %s" % (k, gl, wl))
    for i, a in enumerate(m.atoms):
        for lab, v in a.extras.items():
            g = {l.lower(): x for l, x in ra.atoms[i].extras.items()}.get(lab.lower())
            if g != v:
                bad("atom-extra", "atom %d column %s read back %r, structure has %r" % (i, lab, g, v))
    for k in ("bond", "angle", "dihedral"):
        for j, t in enumerate(m.terms[k]):
            for lab, v in t.extras.items():
                g = {l.lower(): x for l, x in ra.terms[k][j].extras.items()}.get(lab.lower())
                if g != v:
                    bad("%s-extra" % k, "%s %d column %s read back %r, structure has %r" % (k, j, lab, g, v))


def _ase_agreement(ctx, text, re_, where):
    import ase.io
    import warnings
    try:
        with warnings.catch_warnings():
            warnings.simplefilter("ignore")
            b = ase.io.read(io.StringIO(text), format="cif")
    except Exception:
        ctx.count("ase_could_not_read")
        return
    if len(b) != len(re_):
        ctx.count("ase_atom_count_differs")     # ASE merges coincident sites: no verdict
        return
    c1, c2 = np.array(b.cell[:], float), np.array(re_.cell, float)
    if np.abs(c1 - c2).max() > 1e-6 * max(1.0, np.abs(c1).max()):
        raise Violation("c15:ase-cell", "independent reader (ASE) gives cell %s, mofun %s (%s)" % (c1.tolist(), c2.tolist(), where), site="load_p1_cif")
    ok, why = replcheck.multiset_mod_lattice_equal(list(b.get_chemical_symbols()), np.array(b.positions, float), list(re_.elements),
                                                   np.asarray(re_.positions, float).reshape(-1, 3), c2, 1e-3)
    if not ok:
        raise Violation("c15:ase-positions", "independent reader (ASE) disagrees on positions: %s (%s)" % (why, where), site="load_p1_cif")
    ctx.count("ase_agreement_checks")


def _handmade_text(hm):
    la, lb, lc, al, be, ga = cellpar(hm["cell"])
    # standard uncertainties on every number, on none, or (su_some) on an arbitrary subset: refined and fixed parameters mix freely
    import random as _r
    mask = _r.Random(int(hm.get("su_some") or 0))
    if hm["su"] and hm.get("su_some"):
        su = lambda s, k: ("%s(%d)" % (s, k)) if mask.random() < 0.5 else s
    else:
        su = (lambda s, k: "%s(%d)" % (s, k)) if hm["su"] else (lambda s, k: s)
    out = ["data_handmade", ""]
    if hm["sg"] is not None:
        out.append("_symmetry_space_group_name_H-M   '%s'" % hm["sg"])
    out += ["_cell_length_a    %s" % su("%.5f" % la, 3), "_cell_length_b    %s" % su("%.5f" % lb, 12), "_cell_length_c    %s" % su("%.5f" % lc, 4),
            "_cell_angle_alpha %s" % su("%.4f" % al, 2), "_cell_angle_beta  %s" % su("%.4f" % be, 5), "_cell_angle_gamma %s" % su("%.4f" % ga, 1), ""]
    cellp = np.array([float("%.5f" % la), float("%.5f" % lb), float("%.5f" % lc), float("%.4f" % al), float("%.4f" % be), float("%.4f" % ga)])
    labels = []
    for i, e in enumerate(hm["elements"]):
        labels.append({"el_n": "%s%d" % (e, i + 1), "n_el": "%d%s" % (i + 1, e), "X": "X%d" % (7 * i + 3)}[hm["label_style"]])
    cols = ["_atom_site_label", "_atom_site_type_symbol"]
    cols += ["_atom_site_Cartn_x", "_atom_site_Cartn_y", "_atom_site_Cartn_z"] if hm["cartesian"] else ["_atom_site_fract_x", "_atom_site_fract_y", "_atom_site_fract_z"]
    if hm["charges"] is not None:
        cols.append("_atom_site_charge")
    if hm["extra"]:
        cols.append("_atom_site_x_note")
    out.append("loop_")
    out += [" " + c for c in cols]
    from ase.geometry import cellpar_to_cell      # harness-side use only: the standard orientation is defined by this convention
    cstd = np.array(cellpar_to_cell(cellp), float)
    coords = []
    for i in range(hm["n"]):
        f = np.array(hm["frac"][i], float)
        v = f @ cstd if hm["cartesian"] else f
        txt = ["%.5f" % x for x in v]
        coords.append([float(t) for t in txt])
        row = [labels[i], hm["elements"][i]] + [su(t, 1 + (i % 8)) for t in txt]
        if hm["charges"] is not None:
            row.append(repr(hm["charges"][i]))
        if hm["extra"]:
            row.append("n%d" % i)
        out.append(" " + "  ".join(row))
    if hm["bonds"]:
        out += ["", "loop_", " _geom_bond_atom_site_label_1", " _geom_bond_atom_site_label_2", " _geom_bond_distance"]
        for a, b in hm["bonds"]:
            out.append(" %s %s %s" % (labels[a], labels[b], su("1.234", 5)))
    return "\n".join(out) + "\n", cstd, np.array(coords).reshape(-1, 3)


def _check_handmade(ctx, fs, hm):
    text, cstd, coords = _handmade_text(hm)
    ctx.count("handmade_texts")
    if hm["su"]:
        ctx.count("su_parentheses")
    if hm["cartesian"]:
        ctx.count("cartesian_files")
    fs.files["/sim/handmade.cif"] = text
    p1 = hm["sg"] in (None, "P 1", "P1")
    r = _load(ctx, fs, "/sim/handmade.cif", "file", hm.get("read_script"), expect_error=not p1)
    if not p1:
        if not isinstance(r, Exception):
            raise Violation("c15:nonp1-accepted", "a CIF declaring space group %r was read as if it were P1" % hm["sg"], site="load_p1_cif")
        ctx.count("nonp1_rejected")
        return
    def bad(cls, msg):
        raise Violation("c15:%s" % cls, "%s (hand-made CIF, cartesian=%s, su=%s)" % (msg, hm["cartesian"], hm["su"]), site="load_p1_cif")
    if list(r.elements) != list(hm["elements"]):
        bad("elements", "elements read %s, file says %s" % (list(r.elements), hm["elements"]))
    if np.abs(np.array(r.cell, float) - cstd).max() > 1e-9 * max(1.0, np.abs(cstd).max()):
        bad("cell", "cell read %s, file says %s" % (np.array(r.cell).tolist(), cstd.tolist()))
    rp = np.asarray(r.positions, float).reshape(-1, 3)
    if hm["cartesian"]:
        if np.abs(rp - coords).max() > 1e-9:
            bad("cartesian-coordinates", "cartesian positions read %s, file says %s" % (rp[:2].tolist(), coords[:2].tolist()))
    else:
        f1 = rp @ np.linalg.inv(cstd)
        if circ(f1, coords).max() > 1e-9:
            bad("fractional-coordinates", "fractional coordinates read %s, file says %s (modulo 1)" % (f1[:2].tolist(), coords[:2].tolist()))
        if f1.min() < -1e-9 or f1.max() > 1 + 1e-9:
            bad("not-wrapped", "fractional coordinates after reading lie outside the cell: min %.6g, max %.6g" % (f1.min(), f1.max()))
        ctx.count("wrapped_coordinates", int((np.abs(coords - 0.5) > 0.5).sum()))
    if hm["charges"] is not None and np.abs(np.asarray(r.charges, float) - np.array(hm["charges"])).max() > 1e-12:
        bad("charge", "charges read %s, file says %s" % (list(r.charges), hm["charges"]))
    got = [tuple(int(x) for x in b) for b in np.asarray(r.bonds).reshape(-1, 2)] if len(r.bonds) else []
    if got != [tuple(b) for b in hm["bonds"]]:
        bad("bonds", "bonds read %s, file says %s" % (got, hm["bonds"]))
    _ase_agreement(ctx, text, r, "hand-made CIF")


def execute(spec, ctx):
    fs = seams.install_fs(ctx)
    seams.install_random(ctx, {"seed": spec["seed"]})
    fsx = spec["structure"]
    try:
        real = machine.build_real(fsx)
    except Exception as e:
        raise Violation("raises:%s" % type(e).__name__, "constructing the structure: %s" % e, site="constructor")
    m = refmodel.RefAtoms.from_spec(fsx)
    case = spec["case"]
    fract = case["fract"]
    before = replcheck.snapshot(real)
    if case.get("write_fault") is not None:
        # fault configuration: the disk fails after k characters; the error must surface and the object stay untouched
        wf = case["write_fault"]
        by_path = "enospc_at_close" in wf or int(list(wf.values())[0]) % 2 == 0     # the library opens (and closes) the file itself
        raised = None
        try:
            if by_path:
                fs.script = dict(fs.script, write=wf)
                try:
                    real.save("/sim/faulty.cif", use_fract_coords=fract)
                finally:
                    fs.script = dict(fs.script, write={})
            else:
                fh = fs.writer("/sim/faulty.cif", script=wf)
                real.save(fh, filetype="cif", use_fract_coords=fract)
        except OSError as e:
            raised = e
        except Exception as e:
            raise Violation("c15:write-fault-misreported", "an injected write error surfaced as %s: %s" % (type(e).__name__, e), site="save_p1_cif")
        if by_path and raised is None:
            hs = [h for h in fs.open_handles if h.path_ == "/sim/faulty.cif" and h.mode_ != "r"]
            if hs and not hs[-1].closed_:
                raise Violation("c15:file-left-open", "Atoms.save(path) returned normally but left the file open (%d characters never reached the disk)" % len(hs[-1].pending), site="save_p1_cif")
        fired = fs.stats.get("enospc_fired", 0) + fs.stats.get("eio_fired", 0)
        if fired:
            ctx.count("faults_fired")
            if raised is None:
                raise Violation("c15:write-error-swallowed", "the disk reported %s during save but the call returned normally" % case["write_fault"], site="save_p1_cif")
        fs.crash()
        if replcheck.snapshot(real) != before:
            raise Violation("c15:save-modified-object", "a failed CIF save changed the in-memory structure", site="save_p1_cif")
    re1 = None
    if case.get("same_handle") and case["via_save"] != "path" and case["via_load"] != "path":
        t1, p1, re1 = _same_handle(ctx, fs, real, case["via_save"], case["via_load"], "t1", fract)
    else:
        t1, p1 = _save(ctx, fs, real, case["via_save"], "t1", fract, pathkind=case.get("pathkind", "std"))
    if replcheck.snapshot(real) != before:
        raise Violation("c15:save-modified-object", "writing a CIF modified the in-memory structure", site="save_p1_cif")
    prec = _check_text(ctx, t1, m, fract)
    if re1 is None:
        re1 = _load(ctx, fs, p1, case["via_load"], case.get("read_script"), pathkind=case.get("pathkind", "std"))
    _check_reload(ctx, re1, m, fract, "reload of first write, %s coordinates" % ("fractional" if fract else "cartesian"), prec)
    if case.get("read_fault") is not None:
        fired0 = fs.stats.get("eio_read_fired", 0)
        r = _load(ctx, fs, p1, "file", {"eio_at_read": 1 + int(case["read_fault"] * 3), "chunk": "random", "seed": 1}, expect_error=True)
        if fs.stats.get("eio_read_fired", 0) > fired0:
            ctx.count("faults_fired")
            if not isinstance(r, Exception):
                raise Violation("c15:read-error-swallowed", "the stream reported EIO while the CIF was read but a structure was returned", site="load_p1_cif")
    ctx.count("cif_roundtrips")
    c = np.array(m.cell, float)
    if not np.allclose(c, np.diag(np.diag(c))):
        ctx.count("triclinic_cells")
    # writing the re-read structure again gives identical text (after one normalising pass)
    t2, p2 = _save(ctx, fs, re1, case["via_save"], "t2", fract)
    # numbers may be normalised by the first pass (wrapping, printed precision); the LAYOUT may not: the data names of both texts (CIF data
    # names are case-insensitive),
    # in file order, are the same (same loops, same columns, same column order)
    tags1 = [l.split()[0].lower() for l in t1.split("\n") if l.strip().startswith("_")]
    tags2 = [l.split()[0].lower() for l in t2.split("\n") if l.strip().startswith("_")]
    if tags1 != tags2:
        k_ = next((i for i in range(min(len(tags1), len(tags2))) if tags1[i] != tags2[i]), min(len(tags1), len(tags2)))
        raise Violation("c15:rewrite-changes-layout", "writing the re-read structure again lists other data names / another column order: item %d is %r, was %r"
                        % (k_, tags2[k_] if k_ < len(tags2) else None, tags1[k_] if k_ < len(tags1) else None), site="save_p1_cif")
    re2 = _load(ctx, fs, p2, case["via_load"])
    t3, p3 = _save(ctx, fs, re2, case["via_save"], "t3", fract)
    if t2 != t3:
        l2, l3 = t2.split("\n"), t3.split("\n")
        k = next((i for i in range(min(len(l2), len(l3))) if l2[i] != l3[i]), min(len(l2), len(l3)))
        raise Violation("c15:rewrite-not-stable", "writing the re-read structure again changes the text: line %d %r vs %r" % (k + 1, l2[k] if k < len(l2) else None, l3[k] if k < len(l3) else None), site="save_p1_cif")
    ctx.count("rewrite_stable_checks")
    if fract:
        _ase_agreement(ctx, t1, re1, "file written by mofun")
    if spec.get("then_replicate") and len(m.atoms) * int(np.prod(spec["then_replicate"])) <= 60:
        # a later operation on the object that was just written: replicate, then write the supercell
        dims = tuple(int(d) for d in spec["then_replicate"])
        try:
            sup = real.replicate(dims)
        except Exception as e:
            raise Violation("raises:%s" % type(e).__name__, "replicate%s: %s" % (dims, e), site="replicate")
        msup = m.replicate(dims)
        blocks = None
        try:
            n0 = len(m.atoms)
            rp = np.asarray(sup.positions, float).reshape(-1, 3)
            inv = np.linalg.inv(np.array(m.cell, float))
            p0 = np.array([a.pos for a in m.atoms])
            blocks = [tuple(int(x) for x in np.round((rp[b * n0] - p0[0]) @ inv)) for b in range(int(np.prod(dims)))]
            msup = m.replicate(dims, image_order=blocks)
        except Exception:
            msup = m.replicate(dims)
        ts, ps = _save(ctx, fs, sup, "save_p1_cif", "sup", fract)
        try:
            _check_text(ctx, ts, msup, fract)
        except Violation as v:
            raise Violation(v.cls, "after save -> replicate%s -> save: %s" % (dims, v.msg), site=v.site)
        ctx.count("save_replicate_save")
    _check_handmade(ctx, fs, spec["handmade"])
    if not np.allclose(c, np.diag(np.diag(c))) or any(m.terms[k] for k in KINDS) or any(m.xlabels[k] for k in m.xlabels):
        ctx.key(spec["structure"], spec["case"], spec["handmade"])


def shrink(spec):
    s = copy.deepcopy(spec)
    if spec["handmade"]["n"] > 1 or spec["handmade"]["bonds"] or spec["handmade"]["su"]:
        s["handmade"].update(n=1, bonds=[], su=False, extra=False, charges=None, elements=spec["handmade"]["elements"][:1], frac=spec["handmade"]["frac"][:1])
        yield s
    o = spec["structure"]
    for k in KINDS:
        if o[PLURAL[k]]:
            s = copy.deepcopy(spec)
            so = s["structure"]
            so[PLURAL[k]], so["%s_types" % k], so["extra_%s_labels" % k], so["extra_%s_fields" % k] = [], [], [], []
            yield s
        if o.get("extra_%s_labels" % k):
            s = copy.deepcopy(spec)
            s["structure"]["extra_%s_labels" % k], s["structure"]["extra_%s_fields" % k] = [], []
            yield s
    if o.get("extra_atom_labels"):
        s = copy.deepcopy(spec)
        s["structure"]["extra_atom_labels"], s["structure"]["extra_atom_fields"] = [], []
        yield s
    for key, val in (("via_save", "save_p1_cif"), ("via_load", "load_p1_cif"), ("read_script", None)):
        if spec["case"].get(key) != val:
            s = copy.deepcopy(spec)
            s["case"][key] = val
            yield s
    n = len(o["positions"])
    if n > 1:
        s = copy.deepcopy(spec)
        so = s["structure"]
        for key in ("positions", "atom_types", "charges", "groups", "extra_atom_fields", "elements_arg"):
            if so.get(key):
                so[key] = so[key][:-1]
        for k in KINDS:
            keep = [j for j, t in enumerate(so[PLURAL[k]]) if n - 1 not in t]
            so[PLURAL[k]] = [so[PLURAL[k]][j] for j in keep]
            so["%s_types" % k] = [so["%s_types" % k][j] for j in keep]
            if so.get("extra_%s_fields" % k):
                so["extra_%s_fields" % k] = [so["extra_%s_fields" % k][j] for j in keep]
        yield s


def sample_summary(spec):
    o = spec["structure"]
    return {"cell": o["cell"], "positions": o["positions"][:4], "n_atoms": len(o["positions"]), "case": spec["case"],
            "terms": {PLURAL[k]: o[PLURAL[k]] for k in KINDS}, "extra_labels": {k: o.get("extra_%s_labels" % k) for k in refmodel.XKINDS},
            "handmade": spec["handmade"]}
