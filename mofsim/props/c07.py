"""C07 - overlapping replacements are refused, never silently corrupted."""
import collections
import math

import numpy as np

from .. import findcheck, geom, replcheck, seams, worlds
from ..core import Violation, OutOfDomain

ID = "C07"
RULE = ("one case = one periodic world built by GLUING pattern copies at a shared atom (chains, stars, with bystander copies), a pattern pair whose "
        "shared-atom map decides which structure atoms are retained, replace-all / ignore flags, fraction, replaced under 3 scripts of the random "
        "seam (tie-break decides WHICH physical atom is retained, sample decides which matches are selected); the expected outcome (must raise / must "
        "not raise) is computed from the matches observed at the tap and the selection observed at the seam; distinct = distinct world hash; "
        "non-trivial = the selected matches of at least one script shared at least one structure atom")
COMPONENTS = {"real": ["mofun.replace_pattern_in_structure and everything below it"],
              "stub": ["random module inside mofun (SimRandom)", "numpy.random.random (SimRandom)"],
              "tap": ["mofun.mofun.find_pattern_in_structure as called by replace_pattern_in_structure"],
              "oracle_only": ["deletion sets D_m = match atoms - retained atoms computed by the harness from the observed decisions"]}
ASSUMPTIONS = ["with an empty replacement the statement says no overlap error is raised: judged that way",
               "the overlap error is recognised by its class name AtomsShouldNotBeDeletedTwice"]
NRUNS = {"quick": 6000, "thorough": 80000}
MUST_REACH = ["must_raise_cases", "must_not_raise_cases_with_overlap", "ignore_flag_cases"]


def generate(rng, tier):
    fam = rng.choice(["pair", "pair", "collinear", "planar", "asymmetric", "c2", "c3", "td", "chiral"])
    els, P, info = geom.make_pattern(rng, fam)
    P = P @ geom.random_rotation(rng).T
    n = len(P)
    atol = rng.choice([0.01, 0.02, 0.05, 0.1])
    pd = np.sqrt(((P[:, None, :] - P[None, :, :]) ** 2).sum(-1))
    while atol > pd[np.triu_indices(n, 1)].min() / 5.0:
        atol /= 2
    D = geom.diameter(P)
    cfam = rng.choice(["ortho", "cubic", "tri_pos", "tri_neg", "tri_mixed"])
    # clusters of glued copies have diameter up to ~3D: the domain only needs widths > D + 2 atol
    cell = geom.make_cell(rng, cfam, max(D + 2 * atol, 2.2), rng.sample(range(3), rng.choice([0, 0, 1])), roomy=(2.2, 3.5))
    atoms_pos, atoms_el, planted = [], [], []

    def clash(X, skip=()):
        return worlds._min_image_clash([x for i, x in enumerate(X) if i not in skip], atoms_pos, cell, 0.7)

    nclusters = rng.randint(1, 3)
    for c in range(nclusters):
        # first copy of the cluster
        for attempt in range(20):
            X = P @ geom.random_rotation(rng).T
            X = X + np.array([rng.uniform(0, 1) for _ in range(3)]) @ cell - X.mean(axis=0)
            if not clash(X):
                base = len(atoms_pos)
                atoms_pos += [list(x) for x in X]
                atoms_el += list(els)
                copies = [list(range(base, base + n))]
                planted.append({"kind": "copy", "indices": copies[0], "pose": "random", "boundary": 0, "eps": 0.0})
                break
        else:
            continue
        mode = rng.choice(["chain", "star", "none", "chain"])
        if mode == "none":
            continue
        star_anchor = None
        for g in range(rng.randint(1, 3)):
            prev = copies[0] if mode == "star" else copies[-1]
            for attempt in range(25):
                if mode == "star" and star_anchor is not None:
                    j1 = star_anchor
                else:
                    j1 = rng.randrange(n)
                same = [j for j in range(n) if els[j] == els[j1]]
                j2 = j1 if (mode == "star" or rng.random() < 0.5) else rng.choice(same)
                R = geom.random_rotation(rng)
                X = P @ R.T
                glue = np.array(atoms_pos[prev[j1]])
                X = X - X[j2] + glue
                if clash(X, skip=(j2,)):
                    continue
                # the glued atom is shared: all others are new atoms
                idxs = []
                for j in range(n):
                    if j == j2:
                        idxs.append(prev[j1])
                    else:
                        idxs.append(len(atoms_pos))
                        atoms_pos.append(list(X[j]))
                        atoms_el.append(els[j])
                copies.append(idxs)
                planted.append({"kind": "copy", "indices": idxs, "pose": "glued", "boundary": 0, "eps": 0.0})
                if mode == "star":
                    star_anchor = j1
                break
    N = len(atoms_pos)
    perm = list(range(N))
    rng.shuffle(perm)
    inv = {old: new for new, old in enumerate(perm)}
    pos = geom.wrap(np.array([atoms_pos[i] for i in perm], float).reshape(-1, 3), cell)
    for p in planted:
        p["indices"] = [inv[i] for i in p["indices"]]
    spec = {"seed": rng.getrandbits(31), "cell": cell.tolist(), "elements": [atoms_el[i] for i in perm], "positions": pos.tolist(),
            "pattern": {"elements": list(els), "positions": P.tolist()}, "atol": atol, "hints": None, "planted": planted,
            "scripts": worlds.default_scripts(rng)[:3],
            "meta": {"family": fam, "cell_family": cfam, "tight_axes": [], "K": geom.amplification_K(P, None), "D": D}}
    replcheck.add_metadata(rng, spec)
    if rng.random() < 0.5:
        # typed terms all over the structure: removing an atom twice shows in the re-indexing of the terms that survive
        replcheck.add_random_terms(rng, spec)
    spec["replace"] = replcheck.gen_replacement(rng, els, P, mode=rng.choice(["smaller", "smaller", "equal_subst", "larger", "identity", "empty", "disjoint", "equal", "relaxed", "relaxed"]))
    spec["fraction"] = rng.choice([1.0, 1.0, 1.0, 0.5, 0.75])
    spec["replace_all"] = rng.random() < 0.2
    spec["ignore"] = rng.random() < 0.2
    return spec


def execute(spec, ctx):
    findcheck.check_domain(spec)
    structure = replcheck.build_structure(spec)
    search = worlds.build_pattern(spec["pattern"])
    replace = replcheck.build_replacement(spec["replace"])
    seams.install_random(ctx, spec["scripts"][0])
    nrep = len(spec["replace"]["elements"])
    smap = {} if (spec["replace_all"] or nrep == 0) else replcheck.shared_map(spec["pattern"], spec["replace"])
    retained_pat = set(smap.values())
    for k, script in enumerate(spec["scripts"][:3]):
        run = replcheck.run_replace(ctx, structure, search, replace, spec, script,
                                    ignore_atoms_should_not_be_deleted_twice=bool(spec["ignore"]))
        is_overlap_err = run.exc is not None and type(run.exc).__name__ == "AtomsShouldNotBeDeletedTwice"
        if run.exc is not None and not is_overlap_err:
            raise Violation("raises:%s" % type(run.exc).__name__, str(run.exc), site="replace_pattern_in_structure")
        if run.found is None or run.selected is None:
            ctx.count("tap_not_fired")
            continue
        if run.exc is None and len(run.selected) != run.reported:
            ctx.count("selection_not_observed")
            continue
        if is_overlap_err and not run.sample_observed:
            # refused before any selection was drawn.  The selection stream of the seam is untouched, so the selection the
            # library WOULD have drawn for these matches is known: the refusal is judged against it
            M = len(run.found[0])
            fk = run.kw["replace_fraction"] * M
            if abs(fk - math.floor(fk) - 0.5) < 1e-9 or seams.global_rng_touched(ctx):
                ctx.count("refused_before_selection_not_judged")
                continue
            run.selected = [int(i) for i in ctx.rng.sample(list(range(M)), int(round(fk)))]
            ctx.count("refused_before_selection_judged_against_pending_draw")
        sel = [run.found[0][i] for i in run.selected]
        D = [set(i for a, i in enumerate(m) if not (a in retained_pat and nrep > 0)) for m in sel]
        cnt = collections.Counter(i for d in D for i in d)
        twice = sorted(i for i, c in cnt.items() if c > 1)
        share_any = replcheck.overlapping(sel)
        if share_any:
            ctx.key(spec["cell"], spec["positions"], spec["pattern"], spec["replace"], spec["replace_all"], spec["ignore"])
        if spec["ignore"]:
            ctx.count("ignore_flag_cases")
            if is_overlap_err:
                raise Violation("c07:raised-despite-ignore-flag", "overlap error raised although the caller asked to ignore it", site="replace")
            continue
        if nrep == 0:
            ctx.count("empty_replacement_cases")
            if is_overlap_err:
                raise Violation("c07:raised-for-empty-replacement", "overlap error raised for an empty replacement", site="replace")
            expect_removed = set(i for m in sel for i in m)
        elif twice:
            ctx.count("must_raise_cases")
            if not is_overlap_err:
                raise Violation("c07:overlap-not-refused", "atoms %s would be removed by two selected matches %s but no overlap error was raised (result has %s atoms)"
                                % (twice, sel, len(run.result) if run.result is not None else None), site="replace")
            if run.result is not None:
                raise Violation("c07:structure-returned-with-error", "a structure was handed back together with the overlap error", site="replace")
            continue
        else:
            if share_any:
                ctx.count("must_not_raise_cases_with_overlap")
            else:
                ctx.count("must_not_raise_cases_disjoint")
            if is_overlap_err:
                raise Violation("c07:refused-without-double-removal", "overlap error raised although no atom would be removed twice (selected matches %s, retained pattern atoms %s)"
                                % (sel, sorted(retained_pat)), site="replace")
            expect_removed = set(i for d in D for i in d)
        # each structure atom removed at most once, nothing else removed: survivors present exactly once
        res = run.result
        pos0 = np.array(spec["positions"], float).reshape(-1, 3)
        index = replcheck.exact_index(np.array(res.positions, float).reshape(-1, 3))
        rel = list(res.elements)
        stel = list(structure.elements)
        used = set()
        new_of = {}
        for i in range(len(pos0)):
            if i in expect_removed:
                continue
            key = (float(pos0[i][0]), float(pos0[i][1]), float(pos0[i][2]))
            cands = [j for j in index.get(key, []) if j not in used and rel[j] == stel[i]]
            if not cands:
                raise Violation("c07:survivor-missing", "atom %d (%s) is removed by no selected match but is missing from the result" % (i, stel[i]), site="replace")
            used.add(cands[0])
            new_of[i] = cands[0]
        _check_surviving_terms(ctx, spec, structure, res, new_of)
        only = [r for r in range(nrep) if r not in smap]
        if len(res) != len(pos0) - len(expect_removed) + len(sel) * len(only):
            raise Violation("c07:atom-count", "result has %d atoms, expected %d - %d + %d*%d" % (len(res), len(pos0), len(expect_removed), len(sel), len(only)), site="replace")
        ctx.count("results_accounted")


KINDS = (("bonds", "bond_types", "bond_type_coeffs"), ("angles", "angle_types", "angle_type_coeffs"),
         ("dihedrals", "dihedral_types", "dihedral_type_coeffs"), ("impropers", "improper_types", "improper_type_coeffs"))


def _check_surviving_terms(ctx, spec, structure, res, new_of):
    """The replacement patterns of these worlds carry no terms: the result's terms are exactly the structure's terms whose atoms
    all survive, on the same physical atoms, with the coefficient text (or, without tables, the type id) they had."""
    if not any(spec.get(k[0]) for k in KINDS):
        return
    def canon(t):
        t = tuple(int(x) for x in t)
        return min(t, t[::-1])
    for key, tkey, ckey in KINDS:
        table0 = [str(x) for x in np.asarray(getattr(structure, ckey, [])).tolist()]
        table1 = [str(x) for x in np.asarray(getattr(res, ckey, [])).tolist()]
        want = collections.Counter()
        for t, ty in zip(np.asarray(getattr(structure, key)).tolist(), np.asarray(getattr(structure, tkey)).tolist()):
            if all(i in new_of for i in t):
                want[(canon([new_of[i] for i in t]), table0[ty] if table0 else ty)] += 1
        got = collections.Counter()
        terms1, types1 = np.asarray(getattr(res, key)).tolist(), np.asarray(getattr(res, tkey)).tolist()
        if len(terms1) != len(types1):
            raise Violation("c07:%s-types-length" % key, "%d %s but %d types" % (len(terms1), key, len(types1)), site="replace")
        for t, ty in zip(terms1, types1):
            if any(not 0 <= int(i) < len(res) for i in t):
                raise Violation("c07:%s-dangling" % key, "%s entry %s refers to a non-existing atom (result has %d atoms)" % (key, t, len(res)), site="replace")
            if table1 and not 0 <= ty < len(table1):
                raise Violation("c07:%s-type-without-entry" % key, "%s type %d has no coefficient entry" % (key, ty), site="replace")
            got[(canon(t), table1[ty] if table1 else ty)] += 1
        if got != want:
            lost, extra = list((want - got).items())[:2], list((got - want).items())[:2]
            raise Violation("c07:surviving-%s-changed" % key, "terms between atoms that no selected match removes must survive on the same atoms: missing %s, unexpected %s"
                            % (lost, extra), site="replace")
    ctx.count("surviving_terms_checked")


def shrink(spec):
    from . import c04
    import copy
    for s in c04.shrink(spec):
        yield s
    if spec.get("ignore"):
        s = copy.deepcopy(spec)
        s["ignore"] = False
        yield s


def sample_summary(spec):
    from . import c04
    d = c04.sample_summary(spec)
    d["ignore"] = spec["ignore"]
    return d
