"""C02 - every occurrence is found exactly once, also across periodic boundaries."""
from .. import findcheck, seams, worlds

ID = "C02"
RULE = ("one case = one generated periodic world with 0-6 planted copies (random / axis-aligned / antiparallel poses, crossing "
        "0-3 cell boundaries) and decoys, searched under 4-6 scripts of the random seam; distinct = distinct world hash; "
        "non-trivial = at least one planted copy certified 'well inside the tolerance' by the independent classifier, or an "
        "exhaustive independent enumeration of all candidate groups was compared with the result")
COMPONENTS = {"real": ["mofun.find_pattern_in_structure and everything below it", "numpy", "scipy"],
              "stub": ["random module as seen by mofun (SimRandom)", "numpy.random.random (SimRandom)"],
              "oracle_only": ["mofsim.geom: independent enumerating matcher over 27/125 images + Kabsch classifier"]}
ASSUMPTIONS = ["'well inside the tolerance' is made executable as: a proper rigid motion exists with every atom within atol/(2K), K the "
               "a-priori amplification bound of three-point anchoring (DESIGN 3.2); completeness is demanded only there",
               "count equality is asserted only when the exhaustive enumeration finds no group in the gray zone"]
NRUNS = {"quick": 2200, "thorough": 30000}


def generate(rng, tier):
    return worlds.gen_find_world(rng, min_copies=0, moderate_noise=True)


def execute(spec, ctx):
    findcheck.check_domain(spec)
    findcheck.world_reach_counters(ctx, spec)
    structure = worlds.build_structure(spec)
    pattern = worlds.build_pattern(spec["pattern"])
    rng = seams.install_random(ctx, spec["scripts"][0])
    if spec["seed"] % 2:
        findcheck.warmup(ctx, spec, structure)
    ref = "compute"
    counts = set()
    for k, script in enumerate(spec["scripts"]):
        rng.reset(script)
        res = findcheck.call_find(ctx, structure, pattern, spec["atol"], spec["hints"])
        ref = findcheck.oracle_c02(ctx, spec, res, label="script%d" % k, refgroups=ref)
        counts.add(len(res[0]))
    if spec["seed"] % 3 == 0:
        findcheck.reuse_phase(ctx, spec, structure, pattern, "c02")
    elif spec["seed"] % 3 == 1:
        findcheck.relisted_phase(ctx, spec, structure, "c02")
    if findcheck.planted_must(spec) or ref is not None:
        ctx.key(spec["cell"], spec["positions"], spec["pattern"], spec["atol"], spec["hints"])


shrink = worlds.shrink_find_world


def sample_summary(spec):
    return {"cell": spec["cell"], "n_atoms": len(spec["elements"]), "pattern": spec["pattern"], "atol": spec["atol"],
            "hints": spec["hints"], "planted": spec["planted"], "meta": spec["meta"]}
