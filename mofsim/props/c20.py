"""C20 - the command line does exactly load, replicate, find/replace, save (CLI run in-process as a client of the library)."""
import copy
import math
import os
import re
import shutil
import tempfile

import numpy as np

from .. import findcheck, geom, readers, refmodel, replcheck, seams, worlds
from ..core import Violation, HarnessError

ID = "C20"
RULE = ("one case = one generated periodic world with planted occurrences written to real files in a per-run directory (structure as CIF / LAMMPS "
        "data / CML+cell file; find and replace patterns as CML / LAMMPS data / CIF) and one option subset with NON-default values (atol, fraction, "
        "axis hints incl. 0, replicate, mic, charge file, --pp, output as LAMMPS data or CIF); the click command is run in-process under a script "
        "of the random seam with its library calls tapped, then the same files go through the API in the documented order under the same script; "
        "distinct = distinct case hash; non-trivial = at least two non-default options were in effect and the search found at least one match")
COMPONENTS = {"real": ["mofun.cli.mofun_cli.mofun_cli (click command, standalone_mode=False)", "Atoms.load/save, replicate, find/replace", "click", "real files in a temporary directory"],
              "stub": ["random module inside mofun (SimRandom: 'same random seed' = same script)", "numpy.random.random (SimRandom)", "stdout/stderr sink"],
              "tap": ["mofun.cli.mofun_cli.replace_pattern_in_structure / find_pattern_in_structure (observe the call the CLI makes, forward)"],
              "oracle_only": ["the harness' own sequencing of the same API calls; byte comparison of the two output files, parsed comparison on mismatch"]}
ASSUMPTIONS = ["hints are not required to reach the search in find-only mode (C03 makes the result hint-independent)",
               "--framework-element is a listed known finding (raises AttributeError) and is exercised in ~3% of the runs only"]
NRUNS = {"quick": 5000, "thorough": 60000}
RUN_TIMEOUT = 120.0
MUST_REACH = ["cli_runs", "replace_runs", "find_only_runs", "opt_replicate", "opt_mic", "opt_chargefile", "opt_pp", "opt_hints", "output_cif", "input_cml"]


def generate(rng, tier):
    use_mic = rng.random() < 0.35
    fams = ["ortho", "cubic"] if use_mic else ["ortho", "cubic", "tri_pos", "tri_neg", "tri_mixed"]
    if use_mic and rng.random() < 0.2:
        fams = ["tri_tiny"]        # almost, but not, orthorhombic: --mic must treat it as the triclinic cell it is
    tiny = rng.random() < 0.04     # a structure of one or two atoms (a charge file with a single line)
    spec = worlds.gen_find_world(rng, max_atoms=2, max_copies=2, min_copies=1, cell_families=fams, hints_prob=0.0, decoys=False, families=["single"],
                                 atols=[0.05, 0.1], round_cell=3 if use_mic and fams != ["tri_tiny"] else None) if tiny else worlds.gen_find_world(rng, max_atoms=14, max_copies=2, min_copies=1, cell_families=fams, hints_prob=0.0, decoys=rng.random() < 0.4,
                                 families=["pair", "collinear", "planar", "asymmetric", "c2", "c3", "td", "chiral"], atols=[0.05, 0.1, 0.2, 0.02],
                                 width_mult=rng.choice([1.0, 1.3]), round_cell=3 if use_mic and fams != ["tri_tiny"] else None)
    replcheck.add_metadata(rng, spec)
    mode = rng.choice(["replace", "replace", "replace", "find"])
    if mode == "replace" and not use_mic and rng.random() < 0.15:
        # occurrences glued at shared atoms (C07's worlds): the overlap error, or its absence, must come through the command line too
        from . import c07
        spec = c07.generate(rng, tier)
        spec["overlap_world"] = True
    P = np.array(spec["pattern"]["positions"], float).reshape(-1, 3)
    opts = {"mode": mode}
    opts["atol"] = spec["atol"] if rng.random() < 0.85 else None       # None = leave the default (0.05)
    if opts["atol"] is None:
        spec["atol"] = 0.05
    if mode == "replace":
        if not spec.get("overlap_world"):
            spec["replace"] = replcheck.gen_replacement(rng, spec["pattern"]["elements"], P, mode=rng.choice(["larger", "equal_subst", "smaller", "disjoint", "larger"]))
        if not spec["replace"]["elements"]:
            spec["replace"] = replcheck.gen_replacement(rng, spec["pattern"]["elements"], P, mode="equal_subst")
        opts["fraction"] = rng.choice([None, 0.5, 0.75, 0.3, 0.0, 1.0])
        h = worlds.pick_hints(rng, P, prob=0.6)
        opts["hints"] = h
    cell = np.array(spec["cell"], float)
    if rng.random() < 0.5:
        opts["replicate"] = rng.choice([[2, 1, 1], [1, 2, 1], [1, 1, 2], [2, 1, 2], [1, 3, 1], [2, 2, 1]])
    if use_mic:
        L = np.diag(cell) * np.array(opts.get("replicate") or [1, 1, 1])
        target = rng.choice([1, 2, 2, 3])
        k = rng.randrange(3)
        opts["mic"] = round(float(L[k]) * (target - rng.uniform(0.05, 0.9)) / 2.0, 3)
        if rng.random() < 0.3:
            opts["mic"] = float(L[k]) * target / 2.0          # 2*mic/L is exactly an integer
        if np.prod(np.ceil(2 * opts["mic"] / L)) * np.prod(opts.get("replicate") or [1, 1, 1]) > 18:
            opts["mic"] = round(float(L.min()) * 0.45, 3)
    if rng.random() < 0.4:
        opts["charges"] = [round(rng.uniform(-1, 1), 4) for _ in spec["elements"]]
    opts["pp"] = rng.random() < 0.25
    if rng.random() < 0.4:
        # a LAMMPS input may already carry Pair Coeffs (and type labels) of its own
        from .. import machine
        spec["pair_coeffs"] = [machine.gen_coeff(rng, "in%d" % i) for i in range(len(spec["atom_type_elements"]))]
    if opts["pp"] and rng.random() < 0.5:
        # elements whose one-letter symbol is also the beginning of another element's symbol in the UFF table (B/Be, S/Si, I/In)
        from mofun.atomic_masses import ATOMIC_MASSES
        present = sorted(set(spec["elements"]))
        e0 = rng.choice(present)
        e1 = rng.choice([e for e in ("S", "B", "I") if e not in present] or ["S"])
        if e1 not in present:
            ren = lambda lst: [e1 if e == e0 else e for e in lst]
            spec["elements"] = ren(spec["elements"])
            spec["pattern"]["elements"] = ren(spec["pattern"]["elements"])
            if spec.get("replace"):
                spec["replace"]["elements"] = ren(spec["replace"]["elements"])
                spec["replace"].pop("labels", None)
            for i, e in enumerate(spec["atom_type_elements"]):
                if e == e0:
                    spec["atom_type_elements"][i] = e1
                    spec["atom_type_labels"][i] = spec["atom_type_labels"][i].replace(e0, e1, 1)
                    spec["atom_type_masses"][i] = round(ATOMIC_MASSES[e1] + 0.001 * i, 4)
    opts["framework_element"] = "Si" if rng.random() < 0.03 else None
    opts["in_fmt"] = rng.choice(["cif", "lmpdat", "lmpdat", "cml"])
    opts["pat_fmt"] = rng.choice(["cml", "cml", "lmpdat", "cif"])
    opts["out_fmt"] = rng.choice(["lmpdat", "lmpdat", "cif"])
    opts["short_flags"] = rng.random() < 0.5
    opts["same_file"] = mode == "replace" and rng.random() < 0.1      # -f and -r name the same path (parameterising a structure with one file)
    if opts["same_file"]:
        spec["replace"] = {"elements": list(spec["pattern"]["elements"]), "positions": [list(x) for x in spec["pattern"]["positions"]],
                           "charges": None, "groups": None, "mode": "identity"}
        opts["pat_fmt"] = "lmpdat"
    opts["in_place"] = rng.random() < 0.12
    opts["unwrapped"] = rng.random() < 0.15        # some atoms given outside the cell (periodic images of the wrapped ones)
    spec["opts"] = opts
    spec["script"] = spec["scripts"][rng.randrange(len(spec["scripts"]))]
    return spec


def _write_inputs(spec, d):
    """Write structure and patterns as files; the library's own writers are used for LAMMPS/CIF inputs (not under test here)."""
    from mofun import Atoms
    o = spec["opts"]
    S = replcheck.build_structure(spec)
    if o.get("unwrapped"):
        c = np.array(spec["cell"], float)
        S.positions[::3] += c[0]
        S.positions[1::4] -= c[1]
    paths = {}
    if o["in_fmt"] == "lmpdat":
        paths["input"] = os.path.join(d, "structure.lmpdat")
        S.save(paths["input"])
    elif o["in_fmt"] == "cif":
        paths["input"] = os.path.join(d, "structure.cif")
        S.save(paths["input"])
    else:
        paths["input"] = os.path.join(d, "structure.cml")
        with open(paths["input"], "w") as f:
            f.write(readers.write_cml([["a%d" % (i + 1), e] + list(p) for i, (e, p) in enumerate(zip(spec["elements"], spec["positions"]))], [], "sequential"))
        paths["uc"] = os.path.join(d, "cell.cif")
        Atoms(elements=["H"], positions=[[0.0, 0.0, 0.0]], cell=np.array(spec["cell"], float)).save(paths["uc"])

    def write_pattern(pat, name):
        fmt = o["pat_fmt"]
        p = os.path.join(d, "%s.%s" % (name, fmt))
        if fmt == "cml":
            with open(p, "w") as f:
                f.write(readers.write_cml([["a%d" % (i + 1), e] + list(x) for i, (e, x) in enumerate(zip(pat["elements"], pat["positions"]))], [], "sequential"))
        else:
            A = Atoms(elements=list(pat["elements"]), positions=np.array(pat["positions"], float).reshape(-1, 3), cell=np.eye(3) * 50.0)
            if fmt == "lmpdat":
                A.save(p)
            else:
                A.save(p, use_fract_coords=False)
        return p
    paths["find"] = write_pattern(spec["pattern"], "find")
    if o["mode"] == "replace":
        paths["replace"] = paths["find"] if o.get("same_file") else write_pattern(spec["replace"], "replace")
    if o.get("charges"):
        paths["charges"] = os.path.join(d, "charges.txt")
        with open(paths["charges"], "w") as f:
            f.write("\n".join(repr(c) for c in o["charges"]) + "\n\n")
    return paths


def _cli_args(spec, paths, out):
    o = spec["opts"]
    sf = o["short_flags"]
    a = [paths["input"], out]
    a += ["-f" if sf else "--find", paths["find"]]
    if o["mode"] == "replace":
        a += ["-r" if sf else "--replace", paths["replace"]]
        if o.get("fraction") is not None:
            a += ["-p" if sf else "--replace-fraction", repr(o["fraction"])]
        if o.get("hints"):
            for flag, long, v in zip(["-ap1", "-ap2", "-op"], ["--axisp1-idx", "--axisp2-idx", "--opoint-idx"], o["hints"]):
                if v is not None:
                    a += [flag if sf else long, str(v)]
    if o.get("atol") is not None:
        a += ["--atol", repr(o["atol"])]
    if o.get("replicate"):
        a += ["--replicate"] + [str(x) for x in o["replicate"]]
    if o.get("mic") is not None:
        a += ["--mic", repr(o["mic"])]
    if o.get("charges"):
        a += ["-q" if sf else "--chargefile", paths["charges"]]
    if o.get("pp"):
        a += ["--pp"]
    if o.get("framework_element"):
        a += ["--framework-element", o["framework_element"]]
    if "uc" in paths:
        a += ["--extract-uc", paths["uc"]]
    return a


def _check_pp(ctx, atoms):
    """--pp assigns each atom type the UFF pair parameters OF ITS ELEMENT: the UFF type named in the label must be a type of that
    element (UFF type names start with the element symbol, one-letter symbols padded with '_'), and the coefficients must be that
    type's tabulated well depth and distance (sigma = x1 * 2^(-1/6)), read off the parameter table independently."""
    from mofun.uff4mof import UFF4MOF
    els = [str(e) for e in atoms.atom_type_elements]
    labels = [str(l) for l in atoms.atom_type_labels]
    pcs = [str(c) for c in atoms.pair_coeffs]
    if len(labels) != len(els) or len(pcs) != len(els):
        raise Violation("cli:pp-table-length", "--pp: %d atom types, %d labels, %d pair coefficient entries" % (len(els), len(labels), len(pcs)), site="cli")
    for e, l, c in zip(els, labels, pcs):
        if l not in UFF4MOF or l[:2] != e.ljust(2, "_"):
            raise Violation("cli:pp-wrong-element", "--pp: atom type of element %s was given the parameters of UFF type %r" % (e, l), site="cli")
        toks = c.split("#")[0].split()
        want = (UFF4MOF[l][3], UFF4MOF[l][2] * 2 ** (-1.0 / 6.0))
        if len(toks) != 2 or abs(float(toks[0]) - want[0]) > 1e-5 or abs(float(toks[1]) - want[1]) > 1e-5:
            raise Violation("cli:pp-wrong-values", "--pp: element %s (%s) has pair coefficients %r, the table gives epsilon %.6f sigma %.6f" % (e, l, c, want[0], want[1]), site="cli")
    ctx.count("pp_assignments_checked")


def _api_path(ctx, spec, paths, out, taps):
    """The documented order through the API: load, (cell), charges, replicate, mic, pair potentials, find/replace, save."""
    import mofun
    from mofun import Atoms
    import mofun.cli.mofun_cli as cli
    o = spec["opts"]
    atoms = Atoms.load(paths["input"])
    if "uc" in paths:
        atoms.cell = Atoms.load(paths["uc"]).cell
    if o.get("charges"):
        atoms.charges = np.array([float(c) for c in o["charges"]])
    if o.get("replicate"):
        atoms = atoms.replicate(tuple(o["replicate"]))
    if o.get("mic") is not None and atoms.cell_is_orthorhombic():
        repls = np.array(np.ceil(2 * o["mic"] / np.diag(atoms.cell)), dtype=int)
        atoms = atoms.replicate(repls)
    if o.get("pp"):
        cli.assign_pair_params_to_structure(atoms)
        _check_pp(ctx, atoms)
    search = Atoms.load(paths["find"])
    pre = replcheck.snapshot(atoms)
    found = None
    if o["mode"] == "replace":
        replace = Atoms.load(paths["replace"])
        kw = dict(atol=spec["atol"])
        kw.update(findcheck.hint_kwargs(o.get("hints")))
        if o.get("fraction") is not None:
            kw["replace_fraction"] = o["fraction"]
        atoms = mofun.replace_pattern_in_structure(atoms, search, replace, **kw)
    else:
        atoms.save(out)                      # "writes the structure unmodified": saved before any search touches it
        found = mofun.find_pattern_in_structure(atoms.copy(), search, atol=spec["atol"])
        return pre, found
    atoms.save(out)
    return pre, found


def execute(spec, ctx):
    import mofun.cli.mofun_cli as cli
    o = spec["opts"]
    rng = seams.install_random(ctx, spec["script"])
    site = "cli:--framework-element" if o.get("framework_element") else "cli"
    d = tempfile.mkdtemp(prefix="mofsim-c20-")
    try:
        try:
            paths = _write_inputs(spec, d)
        except Exception as e:
            raise HarnessError("could not write input files: %r" % (e,))
        out_cli = os.path.join(d, "out_cli.%s" % o["out_fmt"])
        out_api = os.path.join(d, "out_api.%s" % o["out_fmt"])
        if o.get("in_place") and o["in_fmt"] == o["out_fmt"]:
            # the output path IS the input path (parameterising a file in place): the command line reads it before it writes it;
            # the API path works from a copy taken beforehand
            keep = os.path.join(d, "input_copy.%s" % o["in_fmt"])
            shutil.copyfile(paths["input"], keep)
            out_cli = paths["input"]
            ctx.count("in_place_runs")
        elif o.get("in_place"):
            # ... or an earlier result already sits at the output path
            with open(out_cli, "w") as f:
                f.write("stale output of an earlier run\n")
            ctx.count("output_path_already_exists")
        args = _cli_args(spec, paths, out_cli)
        if o.get("in_place") and o["in_fmt"] == o["out_fmt"]:
            paths = dict(paths, input=keep)
        ctx.event("cli", [re.sub(r"^.*/", "", a) if a.startswith(d) else a for a in args])
        tap_r = seams.Tap(ctx, cli, "replace_pattern_in_structure")
        tap_f = seams.Tap(ctx, cli, "find_pattern_in_structure")
        rng.reset(spec["script"])
        n0 = len(ctx.captured.getvalue())
        try:
            cli.mofun_cli.main(args=args, standalone_mode=False)
        except SystemExit as e:
            if e.code not in (0, None):
                raise Violation("cli:exit-code", "command line exited with status %r" % (e.code,), site=site)
        except Exception as e:
            if type(e).__name__ == "AtomsShouldNotBeDeletedTwice":
                ctx.count("overlap_error_left_to_C07")
                return
            raise Violation("raises:%s" % type(e).__name__, "running the command line %s: %s" % (" ".join(os.path.basename(a) if a.startswith(d) else a for a in args[2:]), e), site=site)
        printed = ctx.captured.getvalue()[n0:]
        ctx.count("cli_runs")
        for k in ("replicate", "mic", "pp"):
            if o.get(k):
                ctx.count("opt_%s" % k)
        if o.get("charges"):
            ctx.count("opt_chargefile")
        if o.get("hints"):
            ctx.count("opt_hints")
        if o["out_fmt"] == "cif":
            ctx.count("output_cif")
        if o["in_fmt"] == "cml":
            ctx.count("input_cml")
        # the same files through the API, same script
        rng.reset(spec["script"])
        try:
            pre, found = _api_path(ctx, spec, paths, out_api, None)
        except Violation:
            raise
        except Exception as e:
            if type(e).__name__ == "AtomsShouldNotBeDeletedTwice":
                # same files, same options, same script of the random seam: the replacement refuses, so the command line cannot
                # have replaced anything - yet it ended normally
                raise Violation("cli:overlap-error-swallowed", "through the API the same replacement raises the overlap error; the command line ended normally%s"
                                % (" and wrote an output file" if os.path.exists(out_cli) else ""), site=site)
            raise HarnessError("API path failed although the command line succeeded: %r" % (e,))
        if not os.path.exists(out_cli):
            raise Violation("cli:no-output-file", "the command line wrote no output file", site=site)
        # (i) every option reaches the operation it names
        if o["mode"] == "replace":
            ctx.count("replace_runs")
            calls = [c for c in tap_r.calls]
            if len(calls) != 1:
                ctx.count("tap_not_fired")
            else:
                c = calls[0]
                kw = dict(c["kwargs"])
                names = ["structure", "search_pattern", "replace_pattern", "replace_fraction", "atol", "axisp1_idx", "axisp2_idx", "opoint_idx"]
                for i, v in enumerate(c["args"]):
                    kw[names[i]] = v
                want = {"atol": spec["atol"], "replace_fraction": 1.0 if o.get("fraction") is None else o["fraction"]}
                for nm, v in zip(["axisp1_idx", "axisp2_idx", "opoint_idx"], o.get("hints") or [None, None, None]):
                    want[nm] = v
                defaults = {"atol": 5e-2, "replace_fraction": 1.0, "axisp1_idx": None, "axisp2_idx": None, "opoint_idx": None}
                for nm, v in want.items():
                    got = kw.get(nm, defaults[nm])
                    if got != v:
                        raise Violation("cli:option-not-passed", "option %s: the command line called the replacement with %r, the option value is %r" % (nm, got, v), site=site)
                if replcheck.snapshot(kw["structure"]) != pre:
                    raise Violation("cli:structure-differs-before-replace", "the structure handed to the replacement differs from load -> charges -> replicate -> mic -> pp through the API", site=site)
        else:
            ctx.count("find_only_runs")
            m = re.search(r"Found (\d+) instances", printed) if not o.get("unwrapped") else None
            if not m:
                # the wording of the report is not specified: without the known phrase nothing is judged about stdout
                ctx.count("find_report_not_parsed")
                m = None
            if m is None:
                pass
            elif int(m.group(1)) != len(found):
                raise Violation("cli:find-count", "command line reports %s matches, the API finds %d" % (m.group(1), len(found)), site=site)
            groups_api = sorted(sorted(int(i) for i in t) for t in found)
            nums = re.findall(r"\(([^()]*)\)", printed[m.end():]) if m else []
            groups_cli = sorted(sorted(int(x) for x in re.findall(r"\d+", g)) for g in nums if re.search(r"\d", g))
            if m and (groups_cli or not groups_api) and groups_cli != groups_api:
                raise Violation("cli:find-matches", "command line prints matches %s..., the API finds %s..." % (groups_cli[:3], groups_api[:3]), site=site)
        # (ii) the written file describes the same structure
        with open(out_cli) as f:
            t_cli = f.read()
        with open(out_api) as f:
            t_api = f.read()
        if t_cli != t_api:
            from mofun import Atoms
            try:
                a, b = Atoms.load(out_cli), Atoms.load(out_api)
                refmodel.compare(refmodel.abstract(a), refmodel.abstract(b), "cli", "output file vs API path", order="exact", pos_tol=0.0)
            except Violation as v:
                raise Violation("cli:output-differs", v.msg, site=site)
            raise Violation("cli:output-differs", "output files differ textually although they parse to the same structure", site=site)
        nondefault = sum(1 for k in ("replicate", "mic", "charges", "pp", "hints", "fraction") if o.get(k)) + (1 if o.get("atol") not in (None, 0.05) else 0)
        nfound = len(found) if found is not None else (len(tap_r.calls) and 1)
        if nondefault >= 2 and nfound:
            ctx.key(spec["positions"], spec["pattern"], spec.get("replace"), spec["opts"])
    finally:
        shutil.rmtree(d, ignore_errors=True)


def shrink(spec):
    o = spec["opts"]
    for k, v in (("replicate", None), ("mic", None), ("charges", None), ("pp", False), ("hints", None), ("fraction", None), ("framework_element", None)):
        if o.get(k):
            s = copy.deepcopy(spec)
            s["opts"][k] = v
            yield s
    for k, v in (("in_fmt", "lmpdat"), ("pat_fmt", "cml"), ("out_fmt", "lmpdat")):
        if o.get(k) != v:
            s = copy.deepcopy(spec)
            s["opts"][k] = v
            yield s
    N = len(spec["elements"])
    covered = {i for p in spec["planted"] for i in p["indices"] if p["kind"] == "copy"}
    for i in range(N):
        if i not in covered:
            s = worlds.drop_atoms(spec, {i})
            s["atom_types"] = [spec["atom_types"][j] for j in range(N) if j != i]
            if s["opts"].get("charges"):
                s["opts"]["charges"] = [c for j, c in enumerate(spec["opts"]["charges"]) if j != i]
            yield s


def _probe_framework_element():
    import io
    import sys
    import mofun.cli.mofun_cli as cli
    from mofun import Atoms
    d = tempfile.mkdtemp(prefix="mofsim-c20p-")
    old = sys.stdout, sys.stderr
    sys.stdout, sys.stderr = io.StringIO(), io.StringIO()
    try:
        p = os.path.join(d, "s.lmpdat")
        Atoms(elements="CO", positions=[[1.0, 1.0, 1.0], [2.2, 1.0, 1.0]], cell=np.eye(3) * 9.0).save(p)
        try:
            cli.mofun_cli.main(args=[p, os.path.join(d, "o.lmpdat"), "--framework-element", "Si"], standalone_mode=False)
            return False
        except Exception:
            return True
    finally:
        sys.stdout, sys.stderr = old
        shutil.rmtree(d, ignore_errors=True)


known_finding_probes = {"cli-framework-element": _probe_framework_element}


def sample_summary(spec):
    return {"opts": spec["opts"], "n_atoms": len(spec["elements"]), "cell": spec["cell"], "pattern": spec["pattern"], "replace": spec.get("replace"),
            "atol": spec["atol"], "planted": spec["planted"]}
