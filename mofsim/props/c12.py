"""C12 - replication describes the same crystal in a larger cell (refinement of every replicate transition)."""
import numpy as np

from .. import geom, machine, refmodel, replcheck, seams
from ..core import Violation

ID = "C12"
RULE = ("one case = a short operation history (0-3 operations) producing an object with any kinds of terms (incl. impropers) and extra columns in a "
        "cell of any family (orthorhombic, LAMMPS-oriented triclinic of either tilt sign, arbitrarily rotated), then replicate with 1-3 dimension "
        "triples incl. unequal factors and (1,1,1); the result must equal the reference model's a*b*c images (each original atom once at every "
        "iA+jB+kC, cell rows scaled, terms copied within each image, tables unchanged), the original must stay bit-identical; distinct = distinct "
        "history hash; non-trivial = a triclinic or term-bearing object was replicated with a non-unit triple")
COMPONENTS = {"real": ["Atoms.replicate -> Atoms.copy/translate/extend", "numpy"],
              "stub": ["none needed: no random, clock or I/O on this path (stated in DESIGN: weakest fit of the technique)"],
              "oracle_only": ["mofsim.refmodel.RefAtoms.replicate; image-block order is read off the result, or atoms are matched by position"]}
ASSUMPTIONS = ["image order is not prescribed: the model's images are ordered like the result's blocks, otherwise atoms are matched by position (1e-9)"]
NRUNS = {"quick": 10000, "thorough": 150000}
MUST_REACH = ["replications_checked", "unequal_factors", "triclinic_replications", "replications_with_impropers", "identity_replications", "coincident_images"]

DIMS = [[1, 1, 1], [2, 1, 1], [1, 2, 1], [1, 1, 2], [2, 2, 1], [1, 2, 3], [3, 1, 2], [2, 3, 1], [2, 2, 2], [1, 1, 3], [3, 2, 1]]


def generate(rng, tier):
    w = {"copy": 1, "delete": 2, "delete_touching": 1, "pop": 0.5, "translate": 1, "extend": 3}
    spec = machine.gen_world(rng, nobj=(1, 3), nops=(0, 3), weights=w, restartable=False, cell_prob=1.0, max_atoms=6, empty_prob=0.0)
    n = len(spec["objects"])
    for o in spec["objects"]:
        if o.get("cell") is None:
            o["cell"] = spec["objects"][0].get("cell") or (np.eye(3) * 9.0).tolist()
    if rng.random() < 0.25:
        # an atom exactly one cell vector away from an atom of the same type: its image coincides with an existing atom
        o = spec["objects"][0]
        k = rng.randrange(3)
        machine.add_shifted_duplicate(o, rng.randrange(len(o["positions"])), np.array(o["cell"], float)[k] * rng.choice([1, -1]))
        spec["coincident_axis"] = k
    if rng.random() < 0.3:
        # atoms outside the cell parallelepiped are legal (an unwrapped molecule hanging over a face)
        o = spec["objects"][rng.randrange(n)]
        c = np.array(o["cell"], float)
        for j in range(len(o["positions"])):
            if rng.random() < 0.4:
                o["positions"][j] = (np.array(o["positions"][j]) + rng.choice([-1, 1, 2]) * c[rng.randrange(3)]).tolist()
    if rng.random() < 0.12:
        # the same crystal in other length units (metres, micrometres, picometre-scale numbers): nothing in the statement depends on
        # the unit, so nothing may be compared against an absolute length
        spec["scale"] = rng.choice([1e-10, 1e-9, 1e-4, 1e3])
        for o in spec["objects"]:
            o["positions"] = (np.array(o["positions"], float) * spec["scale"]).tolist()
            o["cell"] = (np.array(o["cell"], float) * spec["scale"]).tolist()
        for op in spec["ops"]:
            if op["op"] == "translate":
                op["delta"] = [x * spec["scale"] for x in op["delta"]]
            elif op["op"] == "extend":
                op["shift_scale"] = spec["scale"]
    spec["reps"] = [{"src": rng.randrange(n) if "coincident_axis" not in spec or rng.random() < 0.3 else 0, "dims": rng.choice(DIMS)} for _ in range(rng.randint(1, 3))]
    return spec


def execute(spec, ctx):
    seams.install_random(ctx, {"seed": spec["seed"]})
    pool = machine.build_pool(spec, ctx, "c12")
    machine.run_history(pool, spec["ops"], ctx, "c12")
    nontrivial = False
    for rep in spec["reps"]:
        s = rep["src"] % len(pool.real)
        r, m = pool.real[s], pool.model[s]
        dims = tuple(int(d) for d in rep["dims"])
        if m.cell is None or len(m.atoms) == 0 or len(m.atoms) * int(np.prod(dims)) > 150:
            continue
        before = replcheck.snapshot(r)
        npool = len(pool.real)
        touched = machine.apply_op(pool, {"op": "replicate", "src": s, "dims": list(dims)}, ctx, "c12")
        if not touched:
            continue
        i = next(iter(touched))
        res, resm = pool.real[i], pool.model[i]
        where = "replicate%s" % (dims,)
        if replcheck.snapshot(r) != before:
            raise Violation("c12:original-modified", "replicate%s modified the object it was called on" % (dims,), site="replicate")
        if len(res) != len(m.atoms) * int(np.prod(dims)):
            raise Violation("c12:atom-count", "replicate%s of %d atoms gave %d" % (dims, len(m.atoms), len(res)), site="replicate")
        refmodel.structural_invariants(res, where)
        blocks = getattr(pool, "_replicate_blocks", False)
        refmodel.compare(refmodel.abstract(res), resm, "c12", where, order="exact" if blocks else "any",
                         pos_tol=1e-9 * spec.get("scale", 1.0), cell_tol=1e-9 * spec.get("scale", 1.0))
        if spec.get("scale"):
            ctx.count("replications_in_other_length_units")
        # the infinite crystal is unchanged: fractional coordinates in the new cell times the factors, modulo 1, reproduce
        # the original fractional coordinates (independent of the model's own arithmetic)
        c0, c1 = np.array(m.cell, float), np.array(res.cell, float)
        f0 = np.array([a.pos for a in m.atoms]).reshape(-1, 3) @ np.linalg.inv(c0)
        f1 = ((np.asarray(res.positions, float).reshape(-1, 3) @ np.linalg.inv(c1)) * np.array(dims, float))
        hits = np.zeros(len(f0), int)
        rels = list(res.elements)
        for j in range(len(f1)):
            d = f0 - f1[j]
            d -= np.round(d)
            dist = np.abs(d).max(axis=1)
            cand = [i for i in np.nonzero(dist < 1e-6)[0] if m.atoms[i].el == rels[j]]
            if not cand:
                raise Violation("c12:crystal-changed", "replicate%s: atom %d of the result, folded back into the original cell, is no atom of the original crystal" % (dims, j), site="replicate")
            hits[min(cand, key=lambda i: hits[i])] += 1
        if (hits != int(np.prod(dims))).any():
            raise Violation("c12:crystal-changed", "replicate%s: original atoms are reproduced %s times, expected %d each" % (dims, sorted(set(hits.tolist())), int(np.prod(dims))), site="replicate")
        if dims == (1, 1, 1):
            refmodel.compare(refmodel.abstract(res), m, "c12", "replicate(1,1,1) identity", pos_tol=0.0)
            ctx.count("identity_replications")
        # the replica is an independent object: editing it in place must not reach the original (aliasing)
        try:
            res.translate(np.array([0.37, -1.1, 2.2]))
            if len(res.charges):
                res.charges[0] += 1.0
                res.groups[0] += 1
            if len(res.atom_types):
                res.atom_types[0] = res.atom_types[-1]
            if len(res.bonds):
                res.bonds[0] = res.bonds[-1]
            res.cell[0, 0] += 1.0
            if len(res.atom_type_labels):
                try:
                    res.atom_type_labels[0] = "edited"
                except Exception:
                    pass
        except Exception as e:
            raise Violation("raises:%s" % type(e).__name__, "editing a replica in place: %s" % e, site="replicate")
        snap_now = replcheck.snapshot(r)
        if snap_now != before:
            changed = [k for k in before if before[k] != snap_now[k]]
            raise Violation("c12:replica-aliases-original", "editing the replica of replicate%s in place changed the original's %s" % (dims, changed), site="replicate")
        pool.real[i] = None      # the edited replica is no longer used
        ctx.count("replications_checked")
        if "coincident_axis" in spec and s == 0 and dims[spec["coincident_axis"]] > 1:
            ctx.count("coincident_images")
        tri = not np.allclose(c0, np.diag(np.diag(c0)))
        if len(set(dims)) > 1:
            ctx.count("unequal_factors")
        if tri and dims != (1, 1, 1):
            ctx.count("triclinic_replications")
        if m.terms["improper"]:
            ctx.count("replications_with_impropers")
        if dims != (1, 1, 1) and (tri or any(m.terms[k] for k in refmodel.KINDS)):
            nontrivial = True
    if nontrivial:
        ctx.key(spec["objects"], spec["ops"], spec["reps"])


def shrink(spec):
    import copy
    if len(spec["reps"]) > 1:
        for i in range(len(spec["reps"])):
            s = copy.deepcopy(spec)
            s["reps"] = [spec["reps"][i]]
            yield s
    for s in machine.shrink_history(spec):
        yield s


def sample_summary(spec):
    from . import c09
    d = c09.sample_summary(dict(spec, faults=False))
    d["reps"] = spec["reps"]
    d["cell"] = spec["objects"][0].get("cell")
    return d
