"""C08 - self-replacement is a no-op and element substitutions are reversible."""
import collections
import copy
import math
import os
import random

import numpy as np

from .. import findcheck, geom, replcheck, seams, worlds
from ..core import Violation, REPO_DIR
from . import c03

ID = "C08"
RULE = ("one case = a two-step history on one world: (identity) replace a pattern by an identical term-free copy in a structure that carries "
        "its own typed terms - synthetic worlds and the repository's real MOF files read through the simulated file seam; (aba) substitute a "
        "site pattern A by B and B by A, B's elements absent beforehand; (gone) replace every occurrence by a pattern lacking one of the "
        "pattern's elements, then search again; each under a script of the random seam; distinct = distinct world hash; non-trivial = the first "
        "replacement replaced at least one match")
COMPONENTS = {"real": ["mofun.replace_pattern_in_structure (twice per history)", "mofun.find_pattern_in_structure", "Atoms.load for real files", "numpy", "scipy", "PyCifRW"],
              "stub": ["random module inside mofun (SimRandom)", "numpy.random.random (SimRandom)", "file objects handed to Atoms.load (SimTextFile)"],
              "oracle_only": ["exact-position identification of atoms, term tuple sets up to reversal"]}
ASSUMPTIONS = ["identity is asserted with a term-free copy of the pattern (a pattern that brings terms legitimately changes the term sets)",
               "A->B->A equality within the placement bound 2*(3*K*eps*sqrt(n)) + 1e-6 (exact for single atoms and noise-free copies)",
               "the second search of 'gone' must be empty because the replacement lacks an element of the pattern"]
NRUNS = {"quick": 6000, "thorough": 80000}
RUN_TIMEOUT = 300.0
MUST_REACH = ["identity_histories", "aba_histories", "gone_histories", "real_file_runs"]

REAL_IDENTITY = [
    ("tests/uio66/uio66.cif", "tests/uio66/uio66-linker.cml", 0.05),
    ("tests/hkust-1/hkust-1-with-bonds.cif", "tests/molecules/benzene.xyz", 0.05),
    ("docs/examples/uio66.cif", "docs/examples/uio66-metal-center-simple.cml", 0.05),
    ("tests/uio66/uio66-triclinic.cif", "tests/uio66/uio66-linker.cml", 0.2),
]
REAL_ABA = [("tests/uio66/uio66.cif", "Zr", "Hf"), ("tests/hkust-1/hkust-1-with-bonds.cif", "Cu", "Zn"), ("docs/examples/uio66.cif", "Zr", "Ce")]


def generate(rng, tier):
    r = rng.random()
    if r < (0.03 if tier == "quick" else 0.04):
        s, p, atol = rng.choice(REAL_IDENTITY)
        return {"seed": rng.getrandbits(31), "mode": "identity", "real": {"structure": s, "pattern": p}, "atol": atol,
                "read_script": {"chunk": rng.choice(["whole", "random"]), "seed": rng.getrandbits(20)},
                "scripts": worlds.default_scripts(rng)[rng.randrange(4):][:1], "shift_frac": [rng.uniform(0, 1) for _ in range(3)] if rng.random() < 0.5 else None,
                "meta": {"family": "real"}}
    if r < (0.05 if tier == "quick" else 0.07):
        s, a, b = rng.choice(REAL_ABA)
        return {"seed": rng.getrandbits(31), "mode": "aba", "real": {"structure": s, "A": a, "B": b}, "atol": 0.05,
                "read_script": {"chunk": "whole"}, "scripts": worlds.default_scripts(rng)[:1], "fraction": rng.choice([1.0, 1.0, 0.5]),
                "meta": {"family": "real"}}
    mode = rng.choice(["identity", "identity", "aba", "aba", "gone"])
    if mode == "identity":
        spec = worlds.gen_find_world(rng, max_atoms=40, min_copies=1, allow_rotated=True,
                                     cell_families=geom.CELL_FAMILIES if rng.random() < 0.8 else ["tri_rotated"])
        replcheck.add_metadata(rng, spec)
        replcheck.add_random_terms(rng, spec)
        spec["replace"] = {"elements": list(spec["pattern"]["elements"]), "positions": copy.deepcopy(spec["pattern"]["positions"]),
                           "charges": None, "groups": None, "mode": "identity"}
        spec["fraction"] = rng.choice([1.0, 1.0, 0.5])
        spec["replace_all"] = False
        if rng.random() < 0.2:
            # some bystander atoms stored outside the cell box: "every atom's position unchanged" means the stored position
            spec["unwrap"] = {"picks": [rng.random() for _ in range(rng.randint(1, 3))],
                              "shifts": [[rng.choice([-2, -1, -1, 0, 1, 1, 2]) for _ in range(3)] for _ in range(4)]}
        npat = len(spec["pattern"]["elements"])
        Pp = np.array(spec["pattern"]["positions"], float).reshape(-1, 3)
        # (only for patterns without a proper symmetry: otherwise the terms legitimately land on a symmetry-equivalent numbering)
        if npat >= 3 and rng.random() < 0.5 and npat <= 9 and len(geom.symmetry_maps(spec["pattern"]["elements"], Pp, tol=4.0 * spec["atol"])) == 1:
            # the pattern carries some of the terms the structure already has on every occurrence; the structure has further
            # terms on the same atoms in other (non-reversed) orders, which are different terms and must survive
            replcheck.add_random_terms(rng, spec, tables=False)
            pt = {"bonds": [], "angles": [], "dihedrals": []}
            for key, ar in (("bonds", 2), ("angles", 3), ("dihedrals", 4)):
                if npat < ar:
                    continue
                for _ in range(rng.randint(1, 3)):
                    pt[key].append(rng.sample(range(npat), ar))
            for p_ in spec["planted"]:
                if p_["kind"] != "copy":
                    continue
                for key in pt:
                    for tup in pt[key]:
                        st = [p_["indices"][a] for a in tup]
                        spec[key].append(st if rng.random() < 0.5 else st[::-1])
                        spec[key[:-1] + "_types"].append(0)
                        if len(tup) > 2 and rng.random() < 0.6:
                            q = list(st)
                            rng.shuffle(q)
                            if q != st and q != st[::-1]:
                                spec[key].append(q)
                                spec[key[:-1] + "_types"].append(0)
            spec["pattern_terms"] = {k: [t if rng.random() < 0.6 else t[::-1] for t in v if rng.random() < 0.8] for k, v in pt.items()}
    elif mode == "aba":
        fams = ["single", "single", "pair", "collinear", "c2", "c3", "planar", "planar", "asymmetric", "td", "bigring", "bigring"]
        spec = worlds.gen_find_world(rng, max_atoms=40, min_copies=1, families=fams, decoys=rng.random() < 0.6, noise_div_K=True)
        replcheck.add_metadata(rng, spec)
        els = spec["pattern"]["elements"]
        absent = [e for e in ["Zn", "Hf", "Ce", "Si", "P", "Se", "I", "B"] if e not in spec["elements"] and e not in els]
        # B = A with one or more elements substituted by elements absent from the structure
        k = rng.randint(1, max(1, len(els) // 2))
        sub = rng.sample(range(len(els)), k)
        bels = list(els)
        for j in sub:
            bels[j] = rng.choice(absent)
        spec["replace"] = {"elements": bels, "positions": copy.deepcopy(spec["pattern"]["positions"]), "charges": None, "groups": None, "mode": "aba"}
        spec["fraction"] = 1.0
        spec["replace_all"] = False
        spec["mid_replicate"] = rng.choice([[2, 1, 1], [1, 2, 1], [1, 1, 2], [1, 1, 1], [2, 1, 2]]) if rng.random() < 0.3 else None
    else:
        moved = rng.random() < 0.3
        spec = worlds.gen_find_world(rng, max_atoms=36, min_copies=1, families=[f for f in geom.PATTERN_FAMILIES if f != "single"],
                                     **({"atols": [0.005, 0.01, 0.02]} if moved else {}))
        replcheck.add_metadata(rng, spec)
        els = spec["pattern"]["elements"]
        P = np.array(spec["pattern"]["positions"], float).reshape(-1, 3)
        rep = None
        if moved:
            # B = A with one atom moved by less than 0.1 A but far more than the tolerance (a relaxed geometry): the sites then
            # have B's shape, which is certified NOT to be an occurrence of A under any numbering (distances from the moved atom)
            j = rng.randrange(len(els))
            u = np.array([rng.gauss(0, 1) for _ in range(3)])
            if len(els) > 1 and rng.random() < 0.5:
                u = P[j] - P[(j + 1) % len(els)]
            PB = P.copy()
            PB[j] = P[j] + u / np.linalg.norm(u) * rng.uniform(max(0.03, 5 * spec["atol"]), 0.09)
            dB = np.sort(np.linalg.norm(PB - PB[j], axis=1))
            t = 2 * math.sqrt(3.0) * spec["atol"] * 1.05 + 1e-6
            if all(np.abs(dB - np.sort(np.linalg.norm(P - P[i], axis=1))).max() > t for i in range(len(els))):
                rep = {"elements": list(els), "positions": PB.tolist(), "charges": None, "groups": None, "mode": "relaxed"}
                spec["gone_element"] = "the original place of pattern atom %d" % j
        if rep is None:
            x = rng.choice(sorted(set(els)))
            rep = replcheck.gen_replacement(rng, els, P, mode=rng.choice(["smaller", "equal_subst", "larger", "disjoint", "empty"]))
            keep = [i for i, e in enumerate(rep["elements"]) if e != x]
            for key in ("elements", "positions", "charges", "groups", "extra_atom_fields"):
                if rep.get(key) is not None:
                    rep[key] = [rep[key][i] for i in keep]
            spec["gone_element"] = x
        spec["replace"] = rep
        spec["fraction"] = 1.0
        spec["replace_all"] = rng.random() < 0.2
    spec["mode"] = mode
    spec["scripts"] = spec["scripts"][rng.randrange(len(spec["scripts"])):][:1]
    return spec


def _termsets(a):
    """{kind: Counter of canonical tuples of exact positions} for bonds/angles/dihedrals/impropers of an Atoms object."""
    pos = [tuple(float(x) for x in p) for p in np.array(a.positions, float).reshape(-1, 3)]
    out = {}
    for kind in ("bonds", "angles", "dihedrals", "impropers"):
        c = collections.Counter()
        for t in np.array(getattr(a, kind)).reshape(-1, {"bonds": 2, "angles": 3}.get(kind, 4)) if len(getattr(a, kind)) else []:
            tup = tuple(pos[int(i)] for i in t)
            if kind != "impropers":
                tup = min(tup, tup[::-1])
            c[tup] += 1
        out[kind] = c
    return out


def _atom_multiset(a):
    pos = np.array(a.positions, float).reshape(-1, 3)
    els = list(a.elements)
    return collections.Counter((tuple(float(x) for x in pos[i]), str(els[i]), float(a.charges[i]), int(a.groups[i])) for i in range(len(pos)))


def _call_replace(ctx, structure, search, replace, atol, script, hints=None, fraction=1.0, replace_all=False, site="replace_pattern_in_structure"):
    import mofun
    ctx.rng.reset(script)
    ctx.event("op", "replace", len(structure), len(search), len(replace), fraction, replace_all)
    try:
        return mofun.replace_pattern_in_structure(structure, search, replace, atol=atol, replace_fraction=fraction, replace_all=replace_all,
                                                  return_num_matches=True, **findcheck.hint_kwargs(hints))
    except Exception as e:
        if type(e).__name__ == "AtomsShouldNotBeDeletedTwice":
            return None, None
        raise Violation("raises:%s" % type(e).__name__, str(e), site=site)


def _mod_lattice_multiset_equal(a, b, cell, tol):
    return replcheck.multiset_mod_lattice_equal(list(a.elements), np.array(a.positions, float).reshape(-1, 3),
                                                list(b.elements), np.array(b.positions, float).reshape(-1, 3), np.array(cell, float), tol)


def execute(spec, ctx):
    from mofun import Atoms
    seams.install_random(ctx, spec["scripts"][0])
    script = spec["scripts"][0]
    mode = spec["mode"]
    atol = spec["atol"]
    if "real" in spec:
        ctx.count("real_file_runs")
        if mode == "identity":
            S, Pat = c03._load_real(ctx, spec)
            if spec.get("shift_frac"):
                S.positions = geom.wrap(np.array(S.positions, float) + np.array(spec["shift_frac"]) @ np.array(S.cell, float), np.array(S.cell, float))
            search = Atoms(elements=list(Pat.elements), positions=np.array(Pat.positions, float))
            replace = Atoms(elements=list(Pat.elements), positions=np.array(Pat.positions, float))
            hints = None
        else:
            spec2 = dict(spec, real={"structure": spec["real"]["structure"], "pattern": spec["real"]["structure"]})
            S, _ = c03._load_real(ctx, spec2)
            search = Atoms(elements=[spec["real"]["A"]], positions=[[0.0, 0.0, 0.0]])
            replace = Atoms(elements=[spec["real"]["B"]], positions=[[0.0, 0.0, 0.0]])
            hints = None
        structure = S
        cell = np.array(S.cell, float)
        eps, K, npat = 0.0, 1.0, len(search)
    else:
        findcheck.check_domain(spec)
        findcheck.world_reach_counters(ctx, spec)
        if spec.get("unwrap") and mode == "identity" and not spec.get("pattern_terms"):
            spec = replcheck.add_outside_bystanders(spec, spec["unwrap"])[0]
            ctx.count("identity_with_atoms_outside_the_cell_box")
        structure = replcheck.build_structure(spec)
        search = worlds.build_pattern(spec["pattern"])
        replace = replcheck.build_replacement(spec["replace"])
        if spec.get("pattern_terms") and mode == "identity":
            from mofun import Atoms as _A
            pt = spec["pattern_terms"]
            kw = dict(elements=list(spec["pattern"]["elements"]), positions=np.array(spec["pattern"]["positions"], float).reshape(-1, 3))
            for key in ("bonds", "angles", "dihedrals"):
                if pt.get(key):
                    kw[key] = [list(t) for t in pt[key]]
                    kw[key[:-1] + "_types"] = [0] * len(pt[key])
            replace = _A(**kw)
            ctx.count("identity_with_pattern_terms")
        hints = spec["hints"]
        cell = np.array(spec["cell"], float)
        P = np.array(spec["pattern"]["positions"], float).reshape(-1, 3)
        K = geom.amplification_K(P, hints)
        eps = max([p["eps"] or 0.0 for p in spec["planted"] if p["kind"] == "copy"] + [0.0])
        npat = len(P)
    before_atoms = _atom_multiset(structure)
    before_terms = _termsets(structure)
    n0 = len(structure)

    if mode == "identity":
        ctx.count("identity_histories")
        if spec.get("pattern_terms"):
            # the pattern's terms arrive on every match: the term sets stay unchanged only if every match is a planted copy
            ctx.rng.reset(script)
            pre = findcheck.call_find(ctx, structure, search, atol, hints, with_quats=False)
            # ... in the planted numbering (a tight periodic cell or an approximate symmetry can offer another valid numbering of
            # the same atoms, on which the pattern's terms legitimately land elsewhere)
            copies = set(tuple(p_["indices"]) for p_ in spec["planted"] if p_["kind"] == "copy")
            if any(tuple(int(i) for i in t) not in copies for t in pre):
                ctx.count("identity_with_terms_skipped_accidental_match")
                return
        res, k = _call_replace(ctx, structure, search, replace, atol, script, hints, fraction=spec.get("fraction", 1.0))
        if res is None:
            ctx.count("overlap_error_left_to_C07")
            return
        if len(res) != n0:
            raise Violation("c08:identity-changes-atom-count", "replacing a pattern by itself changed the atom count %d -> %d (%d matches)" % (n0, len(res), k), site="replace")
        after = _atom_multiset(res)
        if after != before_atoms:
            diff = list((before_atoms - after).items())[:2]
            raise Violation("c08:identity-changes-atoms", "replacing a pattern by itself changed atoms (position/element/charge/group); e.g. lost %s" % (diff,), site="replace")
        after_terms = _termsets(res)
        for kind in before_terms:
            if set(after_terms[kind]) != set(before_terms[kind]):      # the property speaks of the SET of tuples
                raise Violation("c08:identity-changes-%s" % kind, "replacing a pattern by an identical term-free pattern changed the set of %s tuples (%d -> %d)"
                                % (kind, sum(before_terms[kind].values()), sum(after_terms[kind].values())), site="replace")
        if k:
            ctx.key("identity", spec.get("real"), spec.get("positions", [])[:6], spec.get("pattern"))
            ctx.count("identity_matches_replaced", k)
        return

    if mode == "aba":
        ctx.count("aba_histories")
        # the reversibility clause is about site patterns, i.e. occurrences that do not share atoms: look at the matches first
        ctx.rng.reset(script)
        pre = findcheck.call_find(ctx, structure, search, atol, hints, with_quats=True)
        if replcheck.overlapping([tuple(int(i) for i in t) for t in pre[0]]):
            ctx.count("overlapping_occurrences_left_to_C07")
            return
        # a borderline occurrence may legitimately stop matching once some of its atoms were re-placed at ideal positions:
        # the clause is asserted when every occurrence is well inside the tolerance for BOTH steps (residual <= atol/(2 K^2))
        if npat > 1 and "real" not in spec:
            for X in pre[1]:
                dev = geom.kabsch(P, np.asarray(X, float))[2].max()
                if dev <= atol / (2.0 * K * K):
                    eps = max(eps, float(dev))       # the round trip re-places atoms at ideal positions: off by O(K * residual)
                if dev > atol / (2.0 * K * K):
                    # ... unless the reported site is no occurrence at all (then the sequence below is judged as it stands:
                    # a correct search never reports such a site, so this cannot raise an alarm on correct code)
                    if geom.minimax_fit(P, np.asarray(X, float)) > np.sqrt(3.0) * (atol + 1e-5 * (np.abs(X).max() + 1.0)) * 1.01 + 1e-9:
                        ctx.count("aba_non_occurrence_reported")
                        continue
                    ctx.count("aba_borderline_occurrence_not_judged")
                    return
        res1, k1 = _call_replace(ctx, structure, search, replace, atol, script, hints, fraction=spec.get("fraction", 1.0))
        if res1 is None:
            ctx.count("overlap_error_left_to_C07")
            return
        ctx.event("c08", "A->B", k1, len(res1))
        mult, ref_struct = 1, structure
        dims = spec.get("mid_replicate")
        if dims and "real" not in spec and spec.get("fraction", 1.0) == 1.0 and len(res1) * int(np.prod(dims)) <= 150:
            # an operation between the two replacements: the intermediate structure is replicated (anything cached on the
            # object during the first replacement must not survive the change of cell)
            try:
                res1 = res1.replicate(tuple(dims))
                ref_struct = structure.replicate(tuple(dims))
            except Exception as e:
                raise Violation("raises:%s" % type(e).__name__, "replicate%s between two replacements: %s" % (dims, e), site="replicate")
            mult = int(np.prod(dims))
            cell = np.array(res1.cell, float)
            ctx.count("aba_with_replicate_between")
        # the B sites of the intermediate structure must be as unambiguous as the A sites were: in a tight cell a B pattern can
        # also fit a mixed group (atoms of neighbouring sites / images) within the tolerance, and replacing THAT back legitimately
        # lands elsewhere within O(atol)
        if npat > 1 and "real" not in spec:
            ctx.rng.reset(script)
            preB = findcheck.call_find(ctx, res1, replace, atol, hints, with_quats=True)
            PB = np.array(spec["replace"]["positions"], float).reshape(-1, 3)
            for X in preB[1]:
                devB = float(geom.kabsch(PB, np.asarray(X, float))[2].max())
                if devB > atol / (2.0 * K * K):
                    ctx.count("aba_borderline_occurrence_not_judged")
                    return
                eps = max(eps, devB)
            if replcheck.overlapping([tuple(int(i) for i in t) for t in preB[0]]):
                ctx.count("overlapping_occurrences_left_to_C07")
                return
        # second step: B -> A on the result (all B's: none existed before, so exactly the k1 substituted sites)
        res2, k2 = _call_replace(ctx, res1, replace, search, atol, script, hints, fraction=1.0)
        if res2 is None:
            ctx.count("overlap_error_left_to_C07")
            return
        if k2 != k1 * mult:
            # B sites can legitimately be matched differently only if B's geometry is ambiguous; with absent elements each
            # substituted site is exactly one occurrence
            raise Violation("c08:substitution-not-reversible-count", "A->B replaced %d sites (x%d images), B->A found %d" % (k1, mult, k2), site="replace")
        tol = 2 * (3.0 * K * eps * math.sqrt(max(npat, 1))) * 2 + 2e-6
        if npat == 1:
            tol = 1e-9
        ok, why = _mod_lattice_multiset_equal(ref_struct, res2, cell, tol)
        if not ok:
            raise Violation("c08:substitution-not-reversible", "A->B->A does not restore the (element, position mod lattice) multiset: %s" % why, site="replace")
        if k1:
            ctx.key("aba", spec.get("real"), spec.get("positions", [])[:6], spec.get("replace"))
            ctx.count("aba_sites", k1)
        return

    if mode == "gone":
        ctx.count("gone_histories")
        if spec["replace"].get("mode") == "relaxed":
            ctx.count("gone_by_moving_one_atom")
        res1, k1 = _call_replace(ctx, structure, search, replace, atol, script, hints, fraction=1.0, replace_all=spec["replace_all"])
        if res1 is None:
            ctx.count("overlap_error_left_to_C07")
            return
        ctx.rng.reset(script)
        second_full = findcheck.call_find(ctx, res1, search, atol, hints, with_quats=True)
        second = second_full[0]
        # an occurrence may legitimately re-appear only with the help of inserted atoms ("unless the replacement itself contains
        # it"): any remaining occurrence made solely of atoms that were there before is a violation
        # (an atom is "there before" if the same element sat at exactly that place: a substituted atom takes the place, not the identity)
        orig = set((str(e),) + tuple(float(x) for x in p) for e, p in zip(structure.elements, np.array(structure.positions, float).reshape(-1, 3)))
        rp = [(str(e),) + tuple(float(x) for x in p) for e, p in zip(res1.elements, np.array(res1.positions, float).reshape(-1, 3))]
        for tup, X in zip(second, second_full[1]):
            if all(rp[int(i)] in orig for i in tup):
                if npat > 1 and "real" not in spec and geom.kabsch(P, np.asarray(X, float))[2].max() > atol / (2.0 * K):
                    # a borderline site: whether it counts as an occurrence may differ between the search inside the replacement
                    # (pattern moved to the origin, structure before the deletion) and this one - no verdict
                    ctx.count("gone_borderline_occurrence_not_judged")
                    continue
                raise Violation("c08:occurrences-remain-after-replacing-all", "an occurrence of the original pattern on original atoms %s is still found after replacing all %d by a pattern without %s"
                                % ([int(i) for i in tup], k1, spec["gone_element"]), site="replace")
        if second:
            ctx.count("gone_new_occurrences_with_inserted_atoms")
        if k1:
            ctx.key("gone", spec.get("positions", [])[:6], spec.get("replace"))


def shrink(spec):
    if "real" in spec:
        return
    from . import c04
    for s in c04.shrink(spec):
        if spec["mode"] in ("identity", "aba") and len(s["replace"]["elements"]) != len(spec["replace"]["elements"]):
            continue
        yield s


def sample_summary(spec):
    d = {k: spec.get(k) for k in ("mode", "real", "atol", "hints", "fraction", "replace", "meta")}
    if "real" not in spec:
        d.update(n_atoms=len(spec["elements"]), pattern=spec["pattern"], cell=spec["cell"], planted=spec["planted"],
                 n_terms={k: len(spec.get(k, [])) for k in ("bonds", "angles", "dihedrals", "impropers")})
    return d
