"""C16 - CML molecules load faithfully (documents served through simulated file objects with any legal chunking, real files, real paths)."""
import copy
import os
import shutil
import tempfile

import numpy as np

from .. import readers, seams
from ..core import Violation, HarnessError

ID = "C16"
RULE = ("one case = one generated Avogadro-flavoured CML document (1-40 atoms; id scheme sequential / non-sequential / shuffled / arbitrary strings; "
        "bond list incl. empty or absent; coordinates of any sign and magnitude; attribute order varied) loaded through: a simulated text stream "
        "with scripted read(n) chunking (whole / 1 char / primes / random), a real open file, a real path, each via Atoms.load(.., 'cml') and "
        "Atoms.load_cml; distinct = distinct document hash; non-trivial = id scheme is not 'a1..aN in order' or the bond list is empty/absent")
COMPONENTS = {"real": ["Atoms.load / load_cml", "xml.etree.ElementTree (real parser, fed by the simulated stream)"],
              "stub": ["the open file handed to the loader: SimTextFile (short reads, 1-character reads)"],
              "oracle_only": ["mofsim.readers.write_cml (independent writer of the document; the generator's own atom/bond lists are the truth)"]}
ASSUMPTIONS = ["bonds are compared as a multiset of unordered atom pairs (listing order and orientation inside a bond are not judged)",
               "numeric bond orders only (Avogadro writes 1/2/3)"]
NRUNS = {"quick": 8000, "thorough": 100000}
MUST_REACH = ["documents_without_bonds", "id_scheme_shuffled", "id_scheme_strings", "path_loads", "stream_loads"]

ELS = ["H", "C", "N", "O", "F", "S", "Cl", "Zr", "Cu", "Hf", "Zn"]


def generate(rng, tier):
    n = rng.choice([1, 1, 2, 3, 5, 8, 16, 40]) if rng.random() < 0.5 else rng.randint(1, 40)
    scheme = rng.choice(["sequential", "nonsequential", "shuffled", "strings", "shuffled", "strings"])
    if scheme == "sequential":
        ids = ["a%d" % (i + 1) for i in range(n)]
    elif scheme == "nonsequential":
        start, step = rng.randint(2, 50), rng.randint(2, 9)
        ids = ["a%d" % (start + step * i) for i in range(n)]
    elif scheme == "shuffled":
        ids = ["a%d" % (i + 1) for i in range(n)]
        rng.shuffle(ids)
    else:
        pool = ["Zr1", "atom-%d", "x%d_b", "C.%d", "n%03d", "%dq", "id%d", "A%dz", "ca%d", "CA%d", "Ca%d", "N%d", "n%d"]
        ids = []
        for i in range(n):
            t = rng.choice(pool)
            s = t % rng.randint(0, 999 if t[:2].lower() not in ("ca", "n%") else 3) if "%" in t else t
            while s in ids:
                s = s + "_%d" % rng.randint(0, 99)
            ids.append(s)
    atoms = []
    for i in range(n):
        mag = rng.choice([1.0, 1.0, 10.0, 1e-4, 1e3])
        atoms.append([ids[i], rng.choice(ELS)] + [round(rng.uniform(-5, 5) * mag, rng.choice([3, 5, 8])) for _ in range(3)])
    bmode = rng.choice(["some", "some", "some", "empty", "absent"]) if n > 1 else rng.choice(["empty", "absent"])
    bonds = []
    if bmode == "some":
        for _ in range(rng.randint(1, min(40, 2 * n))):
            a, b = rng.sample(range(n), 2)
            bonds.append([ids[a], ids[b], rng.choice(["1", "1", "2", "3"])])
    order = list(range(5))
    if rng.random() < 0.5:
        rng.shuffle(order)
    return {"seed": rng.getrandbits(31), "atoms": atoms, "bonds": bonds if bmode != "absent" else None, "scheme": scheme, "attr_order": order,
            "read_fault": rng.random() if rng.random() < 0.25 else None,
            "prior": rng.random() < 0.5,
            "extra_ws": rng.random() < 0.3, "declaration": rng.random() < 0.3, "extras": rng.random() < 0.3,
            "chunks": [{"chunk": c, "seed": rng.getrandbits(16)} for c in rng.sample(["whole", "one", "prime", "random", "random"], 3)]}


def _check(ctx, a, spec, how):
    atoms, bonds = spec["atoms"], spec["bonds"] or []
    def bad(cls, msg):
        raise Violation("c16:%s" % cls, "%s (loaded via %s)" % (msg, how), site="load_cml")
    if len(a) != len(atoms):
        bad("atom-count", "%d atoms loaded, document has %d" % (len(a), len(atoms)))
    els = list(a.elements)
    pos = np.asarray(a.positions, float).reshape(-1, 3)
    for i, (aid, el, x, y, z) in enumerate(atoms):
        if els[i] != el:
            bad("element", "atom %d (%s) loaded as %s, document says %s" % (i, aid, els[i], el))
        if tuple(pos[i]) != (float(x), float(y), float(z)):
            bad("coordinates", "atom %d (%s) loaded at %s, document says %s" % (i, aid, pos[i].tolist(), [x, y, z]))
    idx = {aid: i for i, (aid, *_r) in enumerate(atoms)}
    want = sorted(tuple(sorted((idx[b[0]], idx[b[1]]))) for b in bonds)
    got_arr = np.asarray(a.bonds)
    if len(bonds) == 0:
        if len(got_arr) != 0:
            bad("bonds-invented", "%d bonds loaded from a document without bonds" % len(got_arr))
    else:
        if got_arr.ndim != 2 or got_arr.shape[1] != 2:
            bad("bond-shape", "bonds array has shape %s" % (got_arr.shape,))
        got = sorted(tuple(sorted((int(p), int(q)))) for p, q in got_arr)
        if got != want:
            bad("bonds", "bonds loaded %s..., document says %s..." % (got[:4], want[:4]))
    if len(np.asarray(a.bond_types)) != len(got_arr):
        bad("bond-types-length", "%d bond types for %d bonds" % (len(a.bond_types), len(got_arr)))


def _load(ctx, how, fn):
    try:
        return fn()
    except Violation:
        raise
    except Exception as e:
        raise Violation("raises:%s" % type(e).__name__, "loading a conforming CML document via %s: %s" % (how, e), site="load_cml")


def execute(spec, ctx):
    from mofun import Atoms
    fs = seams.install_fs(ctx)
    text = readers.write_cml(spec["atoms"], spec["bonds"], spec["scheme"], attr_order=spec["attr_order"], extra_ws=spec["extra_ws"],
                            declaration=spec.get("declaration", False), extras=spec.get("extras", False))
    ctx.event("doc", len(text), spec["scheme"], len(spec["atoms"]), None if spec["bonds"] is None else len(spec["bonds"]))
    ctx.count("id_scheme_%s" % spec["scheme"])
    if not spec["bonds"]:
        ctx.count("documents_without_bonds")
    if spec.get("prior") and len(spec["atoms"]) > 1:
        # history inside the run: another document that uses the SAME id strings for other atoms is loaded first (whatever the
        # loader keeps between calls must not leak into the next document)
        pa = [[a[0], spec["atoms"][(i + 1) % len(spec["atoms"])][1]] + [round(x + 1.25, 6) for x in a[2:]] for i, a in enumerate(reversed(spec["atoms"]))]
        pspec = dict(spec, atoms=pa, bonds=[list(b) for b in (spec["bonds"] or [])][::-1] if spec["bonds"] is not None else None)
        ptext = readers.write_cml(pa, pspec["bonds"], spec["scheme"], attr_order=spec["attr_order"], extra_ws=False)
        fh = fs.reader(ptext, name="prior.cml", script={"chunk": "whole"})
        a = _load(ctx, "earlier document with the same ids in another order", lambda: Atoms.load(fh, filetype="cml"))
        _check(ctx, a, pspec, "earlier document with the same ids in another order")
        ctx.count("earlier_document_loaded")
    results = []
    for k, script in enumerate(spec["chunks"]):
        fh = fs.reader(text, name="doc.cml", script=script)
        how = "simulated stream chunk=%s %s" % (script["chunk"], "Atoms.load" if k % 2 == 0 else "load_cml")
        a = _load(ctx, how, (lambda: Atoms.load(fh, filetype="cml")) if k % 2 == 0 else (lambda: Atoms.load_cml(fh)))
        _check(ctx, a, spec, how)
        ctx.count("stream_loads")
        # what a caller does with a loaded molecule must not leak into later loads of the same document
        try:
            a.translate(np.array([0.5 + k, -1.0, 2.0]))
            a.positions *= 1.5
            if len(a.bonds):
                a.bonds[:] = 0
            a.atom_type_elements[0] = "Xx"
        except Exception:
            pass
    if spec.get("read_fault") is not None:
        # injected read error in the middle of the document: it must surface (ElementTree would otherwise parse a prefix)
        nreads = max(1, len(text) // 7)
        k = 1 if spec["read_fault"] < 0.3 else 1 + int(spec["read_fault"] * nreads)
        fh = fs.reader(text, name="doc.cml", script={"chunk": "prime", "eio_at_read": k})
        fired0 = fs.stats.get("eio_read_fired", 0)
        try:
            a = Atoms.load(fh, filetype="cml")
        except Exception:
            a = None
            ctx.count("read_faults_surfaced")
        if fs.stats.get("eio_read_fired", 0) > fired0:
            ctx.count("faults_fired")
            if a is not None:
                raise Violation("c16:read-error-swallowed", "the stream reported EIO on read %d but the loader returned a molecule" % k, site="load_cml")
    d = tempfile.mkdtemp(prefix="mofsim-c16-")
    try:
        path = os.path.join(d, "doc.cml")
        with open(path, "w") as f:
            f.write(text)
        a = _load(ctx, "real path (Atoms.load)", lambda: Atoms.load(path))
        _check(ctx, a, spec, "real path (Atoms.load)")
        import pathlib
        a = _load(ctx, "pathlib path (load_cml)", lambda: Atoms.load_cml(pathlib.Path(path)))
        _check(ctx, a, spec, "pathlib path (load_cml)")
        # the documented explicit filetype wins over whatever the file name suggests
        odd = os.path.join(d, ("doc.xml", "doc.cml.bak", "doc", "doc.cif")[spec["seed"] % 4])
        shutil.copyfile(path, odd)
        a = _load(ctx, "real path %s with filetype='cml'" % os.path.basename(odd), lambda: Atoms.load(odd, filetype="cml"))
        _check(ctx, a, spec, "real path %s with filetype='cml'" % os.path.basename(odd))
        # ... and a dot inside the file name does not hide the extension
        dotted = os.path.join(d, ("doc.v2.cml", "my.linker.rev3.cml")[spec["seed"] % 2])
        shutil.copyfile(path, dotted)
        a = _load(ctx, "real path %s" % os.path.basename(dotted), lambda: Atoms.load(dotted))
        _check(ctx, a, spec, "real path %s" % os.path.basename(dotted))
        ctx.count("path_loads", 4)
        with open(path) as f:
            a = _load(ctx, "real open file", lambda: Atoms.load(f, filetype="cml"))
        _check(ctx, a, spec, "real open file")
    finally:
        shutil.rmtree(d, ignore_errors=True)
    if spec["scheme"] != "sequential" or not spec["bonds"]:
        ctx.key(spec["atoms"], spec["bonds"])


def shrink(spec):
    n = len(spec["atoms"])
    if len(spec["chunks"]) > 1:
        for i in range(len(spec["chunks"])):
            s = copy.deepcopy(spec)
            s["chunks"] = [spec["chunks"][i]]
            yield s
    for i in range(n - 1, -1, -1):
        if n == 1:
            break
        s = copy.deepcopy(spec)
        aid = s["atoms"][i][0]
        del s["atoms"][i]
        if s["bonds"]:
            s["bonds"] = [b for b in s["bonds"] if aid not in b[:2]]
        yield s
    if spec["bonds"]:
        for i in range(len(spec["bonds"])):
            s = copy.deepcopy(spec)
            del s["bonds"][i]
            yield s


def sample_summary(spec):
    return {"scheme": spec["scheme"], "atoms": spec["atoms"][:6], "n_atoms": len(spec["atoms"]), "bonds": (spec["bonds"] or [])[:6],
            "bonds_present": spec["bonds"] is not None, "chunks": spec["chunks"]}
