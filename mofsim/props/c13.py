"""C13 - LAMMPS data files round-trip and mean what the structure says (writer -> simulated disk -> independent reader + mofun reader)."""
import copy

import numpy as np

from .. import machine, readers, refmodel, replcheck, restart, seams
from ..core import Violation
from . import c09

ID = "C13"
RULE = ("one case = one generated structure (1-25 atoms, orthorhombic or LAMMPS-oriented tilted cell or none, any numbers of atom/bond/angle/"
        "dihedral/improper types incl. unused ones, arbitrary coefficient strings with at most one trailing comment, negative charges and "
        "coordinates), optionally after 0-2 operations, written in atomic or full style through Atoms.save(path) [simulated disk installed as "
        "mofun.helpers.open], Atoms.save(file) or save_lmpdat(file), inspected by an independent strict reader, re-read through path / simulated "
        "file objects with scripted line delivery, and re-written twice (restart idempotence); fault configurations add ENOSPC/EIO/lost/torn "
        "writes; distinct = distinct case hash; non-trivial = the structure has >= 2 atom types or at least one term")
COMPONENTS = {"real": ["Atoms.save / save_lmpdat / load / load_lmpdat", "mofun.helpers.use_or_open", "numpy"],
              "stub": ["file system: SimFS as mofun.helpers.open; SimTextFile objects passed to save/load (chunking, faults, crash)"],
              "oracle_only": ["mofsim.readers.read_lmpdat_strict (independent strict reader of the documented format)", "mofsim.refmodel projection to 6 decimals"]}
ASSUMPTIONS = ["'means what the structure says' is decided against the documented read_data format as implemented by the harness' strict reader, not against LAMMPS itself",
               "elements are not compared (re-derived from masses on loading: C14)", "cells that are not LAMMPS-oriented are outside the domain (the writer refuses them)"]
NRUNS = {"quick": 10000, "thorough": 150000}
MUST_REACH = ["restarts", "idempotence_checks", "atomic_style", "tilted_cells", "faults_fired"]


def generate(rng, tier):
    w = {"copy": 1, "delete": 2, "delete_touching": 1, "pop": 0.5, "translate": 1, "extend": 3, "subset": 0.5, "assign": 3, "restart": 3}
    spec = machine.gen_world(rng, nobj=(1, 2), nops=(0, 3), weights=w, restartable=True, cell_prob=0.9, max_atoms=25, empty_prob=0.0)
    if rng.random() < 0.15:
        # coordinates of hundreds or thousands of length units, of either sign (an unwrapped trajectory frame, a large box)
        spec["ops"].append({"op": "translate", "obj": rng.randrange(len(spec["objects"])),
                            "delta": [rng.choice([0.0, -150.25, 1234.5, -99.9999995, 999.9999996, -12345.678901]) for _ in range(3)]})
    spec["cases"] = []
    for _ in range(rng.randint(1, 3)):
        via = rng.choice(["path", "file", "save_lmpdat"])
        spec["cases"].append({"obj": rng.randrange(4), "style": rng.choice(["full", "full", "atomic"]), "via_save": via,
                              "via_load": rng.choice(["path", "file", "load_lmpdat"]),
                              "read_script": rng.choice([None, {"chunk": "random", "seed": rng.getrandbits(16)}, {"chunk": "one"}, {"chunk": "prime"}]),
                              "fault": None, "read_fault": rng.random() if rng.random() < 0.25 else None,
                              "pathkind": rng.choice(["std", "std", "odd_ext", "pathlib", "dotted"]), "same_handle": rng.random() < 0.3})
    if rng.random() < 0.25:
        for c in spec["cases"]:
            c["fault"] = rng.choice([{"enospc_after": rng.randint(0, 2500)}, {"eio_after": rng.randint(0, 2500)}, {"enospc_at_close": rng.choice([0.0, 0.5, 1.0])}, {"crash": "lost"},
                                     {"crash": "torn", "torn_at": rng.randint(1, 2000)}])
    return spec


def execute(spec, ctx):
    fs = seams.install_fs(ctx)
    seams.install_random(ctx, {"seed": spec["seed"]})
    pool = machine.build_pool(spec, ctx, "c13")
    machine.run_history(pool, spec["ops"], ctx, "c13", on_restart=lambda pool, op, k: c09._restart(ctx, fs, pool, op, k))
    for ci, case in enumerate(spec["cases"]):
        o = case["obj"] % len(pool.real)
        r, m = pool.real[o], pool.model[o]
        if len(m.atoms) == 0:
            continue
        if not restart.lmp_oriented(m.cell):
            ctx.count("cell_not_lammps_oriented")
            continue
        if m.cell is not None and not np.allclose(np.array(m.cell), np.diag(np.diag(np.array(m.cell)))):
            ctx.count("tilted_cells")
        if case["style"] == "atomic":
            ctx.count("atomic_style")
        before = replcheck.snapshot(r)
        if case.get("fault"):
            c09._faulty_save(ctx, fs, pool, o, {"style": case["style"], "via": "path" if case["via_save"] == "path" else "file"}, "case%d" % ci, case["fault"], prefix="c13")
        else:
            restart.restart_lmpdat(ctx, fs, r, m, "case%d" % ci, style=case["style"], via_save=case["via_save"], via_load=case["via_load"],
                                   prefix="c13", read_script=case.get("read_script"), idempotence=True,
                                   pathkind=case.get("pathkind", "std"), same_handle=case.get("same_handle", False))
        if case.get("read_fault") is not None and not case.get("fault"):
            # injected read error while loading the file just written: the error must surface, or - if the loader got
            # everything it needed before the failing read - the structure returned must still be right
            path = getattr(ctx, "last_restart_path", "/sim/case%d.lmpdat" % ci)
            fired0 = fs.stats.get("eio_read_fired", 0)
            nlines = fs.files[path].count("\n") + 1
            k = 1 + int(case["read_fault"] * (nlines + 1))
            try:
                re_ = restart.load_lmpdat(ctx, fs, path, "file", case["style"], read_script={"eio_at_read": k})
            except OSError:
                re_ = None
                ctx.count("read_faults_surfaced")
            except Exception as e:
                raise Violation("c13:read-fault-misreported", "an injected read error surfaced as %s: %s" % (type(e).__name__, e), site="load_lmpdat")
            if fs.stats.get("eio_read_fired", 0) > fired0:
                ctx.count("faults_fired")
                if re_ is not None:
                    raise Violation("c13:read-error-swallowed", "the disk reported EIO on read %d of %s but the loader returned a structure" % (k, path), site="load_lmpdat")
        if replcheck.snapshot(r) != before:
            raise Violation("c13:save-modified-object", "writing / re-reading modified the in-memory structure", site="save_lmpdat")
        ntypes = len(set(a.label for a in m.atoms))
        if ntypes >= 2 or any(m.terms[k] for k in refmodel.KINDS):
            ctx.key(spec["objects"], spec["ops"], spec["cases"])


def shrink(spec):
    if len(spec["cases"]) > 1:
        for i in range(len(spec["cases"])):
            s = copy.deepcopy(spec)
            s["cases"] = [spec["cases"][i]]
            yield s
    for i, c in enumerate(spec["cases"]):
        for key, val in (("fault", None), ("read_script", None), ("via_save", "path"), ("via_load", "path")):
            if c.get(key) != val:
                s = copy.deepcopy(spec)
                s["cases"][i][key] = val
                yield s
    for s in machine.shrink_history(spec):
        yield s
    # fewer atoms: drop the last atom of an object together with the terms touching it
    for i, o in enumerate(spec["objects"]):
        n = len(o["positions"])
        if n > 1:
            s = copy.deepcopy(spec)
            so = s["objects"][i]
            for key in ("positions", "atom_types", "charges", "groups", "extra_atom_fields", "elements_arg"):
                if so.get(key):
                    so[key] = so[key][:-1]
            for k in refmodel.KINDS:
                keep = [j for j, t in enumerate(so[refmodel.PLURAL[k]]) if n - 1 not in t]
                so[refmodel.PLURAL[k]] = [so[refmodel.PLURAL[k]][j] for j in keep]
                so["%s_types" % k] = [so["%s_types" % k][j] for j in keep]
                if so.get("extra_%s_fields" % k):
                    so["extra_%s_fields" % k] = [so["extra_%s_fields" % k][j] for j in keep]
            yield s


def sample_summary(spec):
    d = c09.sample_summary(dict(spec, faults=any(c.get("fault") for c in spec["cases"])))
    d["cases"] = spec["cases"]
    return d
