"""C06 - force-field terms and coefficients of the replacement arrive intact (replacement histories vs. the reference model,
ending in a durable restart)."""
import copy
import math

import numpy as np

from .. import findcheck, geom, machine, readers, refmodel, replcheck, restart, seams, worlds
from ..core import Violation
from ..refmodel import KINDS, PLURAL, RefAtoms

ID = "C06"
RULE = ("one case = a history of 1-3 chained replacements on one periodic world whose structure carries its own typed terms inside, outside and "
        "across the planted occurrences; replacement patterns carry bonds/angles/dihedrals/impropers with coefficient tables (or none, per world), "
        "pair coefficients, type labels that may collide with the structure's, charges and groups; the tie-break/sample decisions come from the "
        "scripted random seam, the inner search is tapped; after each replacement the result must equal reference-model delete+extend of the "
        "selected matches, and at the end the structure is written to the simulated disk and read by the independent LAMMPS-data reader; "
        "distinct = distinct history hash; non-trivial = at least one replaced match brought a pattern term or re-typed a retained atom")
COMPONENTS = {"real": ["mofun.replace_pattern_in_structure", "Atoms.extend/extend_types/__delitem__", "Atoms.save (lmpdat) / load", "numpy", "scipy"],
              "stub": ["random module inside mofun (SimRandom)", "numpy.random.random (SimRandom)", "file system (SimFS)"],
              "tap": ["mofun.mofun.find_pattern_in_structure as called by replace_pattern_in_structure"],
              "oracle_only": ["mofsim.refmodel (RefAtoms.extend / delete, abstraction)", "mofsim.readers strict LAMMPS reader"]}
ASSUMPTIONS = ["structure and patterns of one world agree per term kind on carrying coefficient tables (compatibility as in the quantifier)",
               "positions of inserted atoms are not judged here (C05); they are identified by element + nearest predicted place",
               "histories whose selected matches overlap in removed atoms are left to C07"]
NRUNS = {"quick": 6000, "thorough": 80000}
MUST_REACH = ["replacements_checked", "pattern_terms_inserted", "retained_atoms_retyped", "bystander_terms_checked", "chained_replacements", "restarts", "superseded_by_pattern_terms"]


def _pattern_ff(rng, cfg, name, elements, positions, label_scheme):
    fs = machine.gen_fragment(rng, cfg, name, atom_elements=list(elements), positions=positions, label_scheme=label_scheme)
    return fs


def generate(rng, tier):
    cif_workflow = rng.random() < 0.03
    cfg = machine.gen_cfg(rng)
    cfg["xlabels"] = {k: [] for k in cfg["xlabels"]} if rng.random() < 0.7 else cfg["xlabels"]
    cfg["table_container"] = "list"
    if cif_workflow:
        cfg["pair"] = False
    spec = worlds.gen_find_world(rng, max_atoms=36, min_copies=1, max_copies=4,
                                 cell_families=["ortho", "cubic", "tri_pos", "tri_neg", "tri_mixed"],
                                 families=["pair", "collinear", "planar", "asymmetric", "c2", "c3", "td", "chiral", "c6"])
    replcheck.add_metadata(rng, spec)
    spec["pair_coeffs"] = [machine.gen_coeff(rng, "ps%d" % i) for i in range(len(spec["atom_type_elements"]))] if cfg["pair"] else []
    # structure terms: random graph on near neighbours + copies of tuples that the pattern will re-define (supersession)
    replcheck.add_random_terms(rng, spec, tables=False)
    for k in KINDS:
        if k not in cfg["kinds"]:
            spec[PLURAL[k]], spec["%s_types" % k] = [], []
        nt = (max(spec["%s_types" % k]) + 1) if spec["%s_types" % k] else 0
        spec["%s_type_coeffs" % k] = [machine.gen_coeff(rng, "%ss%d" % (k[0], i)) for i in range(nt)] if (cfg["tabled"][k] and nt) else []
    pel, P = spec["pattern"]["elements"], np.array(spec["pattern"]["positions"], float).reshape(-1, 3)
    steps = []
    nsteps = rng.choice([1, 1, 2, 3])
    for s in range(nsteps):
        rep = replcheck.gen_replacement(rng, pel, P, mode=rng.choice(["equal", "equal_subst", "larger", "larger", "smaller", "identity", "disjoint", "relaxed"]))
        if not rep["elements"]:
            rep = replcheck.gen_replacement(rng, pel, P, mode="equal")
        scheme = "%s_%d" if rng.random() < 0.35 else None      # same label scheme as the structure: labels may collide
        pcfg = dict(cfg)
        if cif_workflow:
            pcfg = dict(cfg, pair=True)
        ff = _pattern_ff(rng, pcfg, "r%d" % s, rep["elements"], rep["positions"], scheme)
        ff["charges"] = rep["charges"] if rep.get("charges") is not None else ff["charges"]
        ff["groups"] = rep["groups"] if rep.get("groups") is not None else ff["groups"]
        steps.append({"replace": ff, "fraction": rng.choice([1.0, 1.0, 0.5, 0.75]), "replace_all": rng.random() < 0.15,
                      "script": spec["scripts"][rng.randrange(len(spec["scripts"]))]})
    # pre-existing structure terms ON the planted occurrences in the orientation (or reverse) the first pattern defines them
    ff0 = steps[0]["replace"]
    smap0 = replcheck.shared_map(spec["pattern"], {"elements": [ff0["atom_type_elements"][t] for t in ff0["atom_types"]], "positions": ff0["positions"]})
    for p in spec["planted"]:
        if p["kind"] != "copy" or rng.random() < 0.4:
            continue
        for k in KINDS:
            if k not in cfg["kinds"]:
                continue
            for tup in ff0[PLURAL[k]]:
                if all(r in smap0 for r in tup) and rng.random() < 0.7:
                    st = [p["indices"][smap0[r]] for r in tup]
                    r_ = rng.random()
                    if r_ < 0.4:
                        st = st[::-1]
                    elif r_ < 0.55 and len(st) > 2:
                        st2 = list(st)
                        rng.shuffle(st2)
                        st = st2
                    spec[PLURAL[k]].append(st)
                    nt = max(1, len(spec["%s_type_coeffs" % k])) if cfg["tabled"][k] else 2
                    spec["%s_types" % k].append(rng.randrange(nt))
                    if cfg["tabled"][k] and not spec["%s_type_coeffs" % k]:
                        spec["%s_type_coeffs" % k] = [machine.gen_coeff(rng, "%ss0" % k[0])]
    spec["cfg"] = cfg
    spec["steps"] = steps
    spec["cif_workflow"] = cif_workflow
    spec["final_style"] = rng.choice(["full", "full", "atomic"])
    return spec


def _expected_after_replace(ctx, M, Rm, spec, run, res, smap, replace_all, strategy="order"):
    """Reference-model result of one replace call, given the observed matches/selection.  Returns (expected model, stats, removed).
    Inserted atoms of the real result have to be identified with replacement-pattern atoms; `strategy` says how:
      order     - appended match by match in replacement order (what extend does), checked for elements
      hungarian - globally cheapest assignment to the predicted places (rotation observed at the tap, translation fitted)
      anchor    - same, translation pinned at the first matched atom
    A caller tries the strategies in turn: the terms must be right for SOME consistent identification."""
    from scipy.optimize import linear_sum_assignment
    cell = np.array(spec["cell"], float)
    sel = [run.found[0][i] for i in run.selected]
    nrep = len(Rm.atoms)
    Ps = np.array(spec["pattern"]["positions"], float).reshape(-1, 3)
    Pr = np.array([a.pos for a in Rm.atoms]).reshape(-1, 3)
    retained_pat = set(smap.values())
    removed = set()
    for m in sel:
        for a, i in enumerate(m):
            if not (a in retained_pat):
                removed.add(i)
    rpos = np.array(res.positions, float).reshape(-1, 3)
    rel = list(res.elements)
    index = replcheck.exact_index(rpos)
    used = set()
    for i, a in enumerate(M.atoms):
        if i in removed:
            continue
        cands = [j for j in index.get(tuple(a.pos), []) if j not in used]
        if not cands:
            raise Violation("c06:surviving-atom-missing", "atom %d (%s) is removed by no selected match but is not in the result at its position" % (i, a.el), site="replace")
        used.add(cands[0])
    pool = [j for j in range(len(rpos)) if j not in used]
    only = [r for r in range(nrep) if r not in smap]
    slots = [(mi, r) for mi in range(len(sel)) for r in only]
    if len(pool) != len(slots):
        raise Violation("c06:unexpected-atoms", "%d atoms in the result are neither original atoms nor expected insertions (%d matches x %d inserted atoms)"
                        % (len(pool), len(sel), len(only)), site="replace")
    assign = {}
    if strategy == "order":
        for k, (mi, r) in enumerate(slots):
            if rel[pool[k]] != Rm.atoms[r].el:
                raise Violation("c06:inserted-atom-missing", "inserted atoms are not appended match by match in replacement order", site="replace")
            assign[(mi, r)] = pool[k]
    elif slots:
        cost = np.full((len(slots), len(pool)), 1e6)
        for k, (mi, r) in enumerate(slots):
            si = run.selected[mi]
            X = np.asarray(run.found[1][si], float).reshape(-1, 3)
            try:
                R = np.asarray(run.found[2][si].as_matrix(), float)
            except Exception:
                R = geom.kabsch(Ps, X)[0] if len(Ps) > 1 else np.eye(3)
            t = (X - Ps @ R.T).mean(axis=0) if strategy == "hungarian" else X[0] - Ps[0] @ R.T
            y = Pr[r] @ R.T + t
            for c, j in enumerate(pool):
                if rel[j] == Rm.atoms[r].el:
                    cost[k, c] = replcheck._nearest_image(rpos[j], y, cell)[1]
        rows, cols = linear_sum_assignment(cost)
        for k, c in zip(rows, cols):
            if cost[k, c] >= 1e6:
                raise Violation("c06:inserted-atom-missing", "no inserted %s atom found for replacement atom %d" % (Rm.atoms[slots[k][1]].el, slots[k][1]), site="replace")
            assign[slots[k]] = pool[c]
    E = M.clone()
    ns = ("repl", id(run))
    stats = {"terms": 0, "retyped": 0, "superseded": 0}
    for mi, m in enumerate(sel):
        other = Rm.clone()
        imap = {r: m[s] for r, s in smap.items()}
        for r in only:
            other.atoms[r].pos = tuple(float(x) for x in rpos[assign[(mi, r)]])
        before = sum(len(E.terms[k]) for k in KINDS)
        E.extend(other, index_map=imap, token_ns=ns)
        after = sum(len(E.terms[k]) for k in KINDS)
        nterms = sum(len(other.terms[k]) for k in KINDS)
        stats["terms"] += nterms
        stats["superseded"] += before + nterms - after
        stats["retyped"] += len(imap)
    # a structure atom retained by several selected matches is re-typed by each of them; WHICH of them is processed last is not
    # specified (it depends on the order in which matches are handled), so any of the candidates is accepted for such atoms
    cand = {}
    for mi, m in enumerate(sel):
        for r, s in smap.items():
            cand.setdefault(m[s], []).append(Rm.atoms[r])
    amb = {si: c for si, c in cand.items() if len(c) > 1 and si not in removed}
    if amb:
        A = refmodel.abstract(res)
        for si, cs in amb.items():
            js = index.get(tuple(M.atoms[si].pos), [])
            for j in js:
                ra = A.atoms[j]
                if any((ra.el, ra.label, ra.mass, ra.pair) == (c.el, c.label, c.mass, c.pair) for c in cs):
                    E.atoms[si].el, E.atoms[si].label, E.atoms[si].mass, E.atoms[si].pair = ra.el, ra.label, ra.mass, ra.pair
                    if E.atoms[si].extras or ra.extras:
                        E.atoms[si].extras = dict(ra.extras)
                    break
        ctx.count("atoms_retained_by_several_matches", len(amb))
    E.delete(removed)
    return E, stats, removed


def check_replace_result(ctx, M, Rm, spec, run, res, smap, replace_all, prefix, where):
    """Compare the real result with the reference model under some consistent identification of the inserted atoms."""
    first = None
    # when the terms of two selected matches land on the same set of atoms (matches overlapping in retained atoms), which of
    # them supersedes which depends on the order in which the matches are handled - unspecified: such kinds are not judged
    sel = [run.found[0][i] for i in run.selected]
    skip = []
    for k in KINDS:
        seen = {}
        for mi, m in enumerate(sel):
            for t in Rm.terms[k]:
                if all(r in smap for r in t.atoms):
                    key = frozenset(m[smap[r]] for r in t.atoms)
                    if seen.setdefault(key, mi) != mi:
                        skip.append(k)
        if k in skip:
            ctx.count("kinds_with_order_dependent_supersession")
    for strategy in ("order", "hungarian", "anchor"):
        try:
            E, stats, removed = _expected_after_replace(ctx, M, Rm, spec, run, res, smap, replace_all, strategy)
            refmodel.compare(refmodel.abstract(res), E, prefix, where, order="any", pos_tol=0.0, skip_kinds=tuple(set(skip)))
            if strategy != "order":
                ctx.count("inserted_atoms_identified_by_%s" % strategy)
            return E, stats, removed
        except Violation as v:
            first = first or v
    raise first


def execute(spec, ctx):
    findcheck.check_domain(spec)
    fs = seams.install_fs(ctx)
    seams.install_random(ctx, spec["steps"][0]["script"])
    site_suffix = ":cif-workflow" if spec.get("cif_workflow") else ""
    structure = replcheck.build_structure(spec)
    fsx = dict(spec)
    for k in refmodel.XKINDS:
        fsx.setdefault("extra_%s_labels" % k, [])
    M = RefAtoms.from_spec(fsx)
    refmodel.compare(refmodel.abstract(structure), M, "c06", "construct")
    search = worlds.build_pattern(spec["pattern"])
    nontrivial = False
    for k, step in enumerate(spec["steps"]):
        ff = step["replace"]
        try:
            replace = machine.build_real(ff)
        except Exception as e:
            raise Violation("raises:%s" % type(e).__name__, "constructing the replacement pattern: %s" % e, site="constructor")
        Rm = RefAtoms.from_spec(ff)
        rep_pat = {"elements": [a.el for a in Rm.atoms], "positions": [list(a.pos) for a in Rm.atoms]}
        smap = {} if step["replace_all"] else replcheck.shared_map(spec["pattern"], rep_pat)
        sp = dict(spec, fraction=step["fraction"], replace_all=step["replace_all"], replace=rep_pat)
        if k > 0:
            load = replcheck.first_round_candidates(structure, spec["pattern"], spec["atol"])
            ctx.event("load", k, len(structure), load)
            if load > 1500:
                # an earlier replacement packed so many atoms of the pattern's elements into the (small) cell that one more search
                # would take minutes: the history ends here (nothing is judged about a step that is not taken)
                ctx.count("history_stopped_structure_too_dense")
                break
        snaps = [replcheck.snapshot(x) for x in (structure, search, replace)]
        run = replcheck.run_replace(ctx, structure, search, replace, sp, step["script"])
        for snap, obj, what in zip(snaps, (structure, search, replace), ("structure", "search_pattern", "replace_pattern")):
            if replcheck.snapshot(obj) != snap:
                changed = [k_ for k_ in snap if snap[k_] != replcheck.snapshot(obj)[k_]]
                raise Violation("c06:input-modified", "%s changed during replace_pattern_in_structure: %s" % (what, changed), site="replace" + site_suffix)
        if run.exc is not None:
            if type(run.exc).__name__ == "AtomsShouldNotBeDeletedTwice":
                ctx.count("overlap_error_left_to_C07")
                break
            raise Violation("raises:%s" % type(run.exc).__name__, str(run.exc), site="replace_pattern_in_structure" + site_suffix)
        if run.found is None or len(run.selected) != run.reported:
            ctx.count("selection_not_observed")
            break
        sel = [run.found[0][i] for i in run.selected]
        retained_pat = set(smap.values())
        D = [set(i for a, i in enumerate(m) if a not in retained_pat) for m in sel]
        if sum(len(d) for d in D) != len(set().union(*D)) if D else False:
            ctx.count("overlapping_selection_left_to_C07")
            break
        res = run.result
        where = "replace step %d" % k
        try:
            refmodel.structural_invariants(res, where)
            E, stats, removed = check_replace_result(ctx, M, Rm, sp, run, res, smap, step["replace_all"], "c06", where)
        except Violation as v:
            if site_suffix:
                raise Violation(v.cls, v.msg, site="replace" + site_suffix)
            raise
        ctx.count("replacements_checked")
        ctx.count("pattern_terms_inserted", stats["terms"])
        ctx.count("retained_atoms_retyped", stats["retyped"])
        ctx.count("superseded_by_pattern_terms", stats["superseded"])
        ctx.count("bystander_terms_checked", sum(len(E.terms[kk]) for kk in KINDS))
        if k:
            ctx.count("chained_replacements")
        if run.reported and (stats["terms"] or stats["retyped"]):
            nontrivial = True
        # continue the history on the result
        structure, M = res, refmodel.abstract(res)
        sp_pos = np.array(res.positions, float)
    # the written LAMMPS data file is an observation point of this property
    if len(M.atoms) and restart.lmp_oriented(M.cell):
        try:
            restart.restart_lmpdat(ctx, fs, structure, M, "c06final", style=spec.get("final_style", "full"), via_save="path", via_load="file", prefix="c06")
        except Violation as v:
            if site_suffix:
                raise Violation(v.cls, v.msg, site=(v.site or "") + site_suffix)
            raise
    if nontrivial:
        ctx.key(spec["positions"], spec["pattern"], spec["steps"])


def shrink(spec):
    if len(spec["steps"]) > 1:
        for i in range(len(spec["steps"])):
            s = copy.deepcopy(spec)
            s["steps"] = spec["steps"][:i] + spec["steps"][i + 1:]
            yield s
    for k in KINDS:
        if spec.get(PLURAL[k]):
            s = copy.deepcopy(spec)
            s[PLURAL[k]], s["%s_types" % k], s["%s_type_coeffs" % k] = [], [], []
            yield s
        for i, st in enumerate(spec["steps"]):
            if st["replace"][PLURAL[k]]:
                s = copy.deepcopy(spec)
                r = s["steps"][i]["replace"]
                r[PLURAL[k]], r["%s_types" % k], r["%s_type_coeffs" % k] = [], [], []
                r["extra_%s_labels" % k], r["extra_%s_fields" % k] = [], []
                yield s
    for i, st in enumerate(spec["steps"]):
        if st["fraction"] != 1.0:
            s = copy.deepcopy(spec)
            s["steps"][i]["fraction"] = 1.0
            yield s
    # drop structure atoms that are in no planted copy
    N = len(spec["elements"])
    covered = {i for p in spec["planted"] for i in p["indices"] if p["kind"] == "copy"}
    for i in range(N):
        if i not in covered:
            s = worlds.drop_atoms(spec, {i})
            s["atom_types"] = [spec["atom_types"][j] for j in range(N) if j != i]
            yield s


def sample_summary(spec):
    return {"n_atoms": len(spec["elements"]), "cell": spec["cell"], "pattern": spec["pattern"], "cfg": spec["cfg"],
            "structure_terms": {PLURAL[k]: spec.get(PLURAL[k]) for k in KINDS},
            "steps": [{"replace": {kk: st["replace"].get(kk) for kk in ("atom_types", "atom_type_labels", "bonds", "bond_types", "bond_type_coeffs", "angles", "pair_coeffs")},
                       "fraction": st["fraction"], "replace_all": st["replace_all"]} for st in spec["steps"]],
            "cif_workflow": spec["cif_workflow"]}


def _probe_cif_workflow():
    """Deterministic probe of the listed finding: parameterised pattern into a structure that has atom types but no pair table."""
    import io
    import sys
    from mofun import Atoms, replace_pattern_in_structure
    old = sys.stderr
    sys.stderr = io.StringIO()
    try:
        s = Atoms(elements="CNO", positions=[[1.0, 1.0, 1.0], [2.2, 1.0, 1.0], [5.0, 5.0, 5.0]], cell=np.eye(3) * 12.0)
        search = Atoms(elements="CN", positions=[[0.0, 0.0, 0.0], [1.2, 0.0, 0.0]])
        repl = Atoms(atom_types=[0, 1], atom_type_elements=["C", "F"], atom_type_labels=["C_R", "F_"], atom_type_masses=[12.011, 18.998],
                     positions=[[0.0, 0.0, 0.0], [1.2, 0.0, 0.0]], pair_coeffs=["0.105 3.43 # C_R", "0.05 3.0 # F_"])
        res = replace_pattern_in_structure(s, search, repl)
    finally:
        sys.stderr = old
    try:
        refmodel.structural_invariants(res, "probe")
        a = refmodel.abstract(res)
        o = [x for x in a.atoms if x.el == "O"][0]
        f = [x for x in a.atoms if x.el == "F"][0]
        return not (o.pair is None and f.pair == "0.05 3.0 # F_")
    except Violation:
        return True


known_finding_probes = {"cif-workflow-pair-table": _probe_cif_workflow}
