"""C01 - every reported match is a genuine rigid-motion image of the pattern."""
import numpy as np

from .. import findcheck, geom, seams, worlds
from ..core import Violation

ID = "C01"
RULE = ("one case = one generated periodic world (cell, atoms, pattern, planted copies/decoys, tolerance, hints) searched "
        "under 4-6 scripts of the random seam; distinct = distinct world hash; non-trivial = the real search returned at "
        "least one match of a pattern with >= 2 atoms, each of which was put through the per-match oracle")
COMPONENTS = {"real": ["mofun.find_pattern_in_structure and everything below it (mofun.helpers quaternion code, Atoms)",
                       "numpy", "scipy"],
              "stub": ["random module as seen by mofun.mofun / mofun.helpers (SimRandom)", "numpy.random.random (SimRandom)"],
              "oracle_only": ["mofsim.geom (Kabsch classifier, lattice arithmetic)"]}
ASSUMPTIONS = ["a match is accepted by the oracle if it fits per coordinate within atol + 1e-5*|x| (the norm of numpy.allclose); "
               "anything looser is flagged", "the exactly parallel axis draw (measure zero) is excluded from the random seam's scripts"]
NRUNS = {"quick": 4000, "thorough": 60000}


def generate(rng, tier):
    return worlds.gen_find_world(rng, moderate_noise=True, allow_rotated=True, cell_families=geom.CELL_FAMILIES + ["tri_upper", "tri_left"])


def execute(spec, ctx):
    findcheck.check_domain(spec)
    findcheck.world_reach_counters(ctx, spec)
    structure = worlds.build_structure(spec)
    pattern = worlds.build_pattern(spec["pattern"])
    rng = seams.install_random(ctx, spec["scripts"][0])
    if spec["seed"] % 2:
        findcheck.warmup(ctx, spec, structure)
    total = 0
    for k, script in enumerate(spec["scripts"]):
        rng.reset(script)
        res = findcheck.call_find(ctx, structure, pattern, spec["atol"], spec["hints"])
        findcheck.oracle_c01(ctx, spec, res, label="script%d" % k)
        total += len(res[0])
        if k == 0:
            findcheck.oracle_indices_only(ctx, structure, pattern, spec, res, script)
    if spec["seed"] % 3 == 0:
        findcheck.reuse_phase(ctx, spec, structure, pattern, "c01")
    elif spec["seed"] % 3 == 1:
        findcheck.relisted_phase(ctx, spec, structure, "c01")
    if seams.global_rng_touched(ctx):
        ctx.count("global_rng_touched")
    if total and len(spec["pattern"]["elements"]) >= 2:
        ctx.key(spec["cell"], spec["positions"], spec["pattern"], spec["atol"], spec["hints"])


shrink = worlds.shrink_find_world


def sample_summary(spec):
    return {"cell": spec["cell"], "n_atoms": len(spec["elements"]), "pattern": spec["pattern"], "atol": spec["atol"],
            "hints": spec["hints"], "planted": spec["planted"], "scripts": spec["scripts"], "meta": spec["meta"]}
