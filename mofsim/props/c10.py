"""C10 - deleting atoms removes exactly them and the terms that touch them (refinement of every delete/pop transition)."""
import itertools

import numpy as np

from .. import machine, refmodel, seams
from ..core import Violation

ID = "C10"
RULE = ("one case = a short operation history (0-5 operations: extend, copy, delete, repeated extension, restart-free) that produces the "
        "representation the deletion is applied to (list/ndarray tables, emptied kinds, object-dtype extras), followed by the deletions under "
        "test: random index lists in every container, pop()/pop(i), and - for every object with <= 6 atoms - EVERY non-empty subset (every listing "
        "order for <= 3 indices) applied to a copy and compared with the reference model; distinct = distinct history hash; non-trivial = at least "
        "one deletion removed an atom that carried a term")
COMPONENTS = {"real": ["Atoms.__delitem__, _delete_and_reindex_atom_index_array, pop, copy, extend (to build states)", "numpy"],
              "stub": ["none needed: no random, clock or I/O on this path (stated in DESIGN: weakest fit of the technique)"],
              "oracle_only": ["mofsim.refmodel.RefAtoms.delete"]}
ASSUMPTIONS = ["indices are distinct, valid and non-negative, as the quantifier says"]
NRUNS = {"quick": 6000, "thorough": 80000}
MUST_REACH = ["exhaustive_subsets", "deletions_touching_terms", "op_pop", "large_deletions", "deletions_by_own_term_view"]
RUN_TIMEOUT = 180.0


def generate(rng, tier):
    w = {"copy": 1, "subset": 0.3, "delete": 3, "delete_touching": 1, "delete_all": 0.2, "pop": 2, "translate": 0.2, "extend": 3, "replicate": 0.3}
    big = rng.random() < 0.25
    spec = machine.gen_world(rng, nobj=(1, 3), nops=(0, 5), weights=w, max_atoms=60 if big else 7, empty_prob=0.0)
    if big:
        for o in spec["objects"]:
            if len(o["positions"]) < 25:
                extra = machine.gen_fragment(rng, spec["cfg"], o["name"], natoms=rng.randint(30, 60), cell=o.get("cell"), idiom=o["idiom"])
                extra["name"] = o["name"]
                o.clear()
                o.update(extra)
    if rng.random() < 0.05:
        # a large framework with a handful of terms that share atoms; many scattered atoms are deleted at once
        o = machine.gen_fragment(rng, spec["cfg"], "huge", natoms=rng.randint(300, 500), cell=spec["objects"][0].get("cell"), idiom="explicit")
        nat = len(o["positions"])
        hub = rng.randrange(nat)
        for k in refmodel.KINDS:
            if k in spec["cfg"]["kinds"] or k == "bond":
                ar = refmodel.ARITY[k]
                o[refmodel.PLURAL[k]] = [[hub] + rng.sample([i for i in range(nat) if i != hub], ar - 1) for _ in range(rng.randint(2, 4))]
                o["%s_types" % k] = [0] * len(o[refmodel.PLURAL[k]])
                o["%s_type_coeffs" % k] = [machine.gen_coeff(rng, "h")] if spec["cfg"]["tabled"][k] else []
                o["extra_%s_labels" % k], o["extra_%s_fields" % k] = [], []
        spec["objects"] = [o]
        spec["ops"] = []
        spec["huge"] = True
    if rng.random() < 0.012:
        # more than 1024 (sometimes more than 2048) terms of one kind in one object
        nat = rng.choice([1100, 1500, 2300])
        spec["objects"] = [machine.gen_long_chain(rng, spec["cfg"], nat, cell=spec["objects"][0].get("cell"))]
        spec["ops"] = []
        spec["huge"] = "chain"
    n = len(spec["objects"])
    tail = []
    for _ in range(rng.randint(1, 4)):
        if rng.random() < 0.3:
            tail.append({"op": "pop", "obj": rng.randrange(n), "pos": None if rng.random() < 0.5 else rng.random(), "negative": rng.random() < 0.4})
        else:
            tail.append({"op": "delete", "obj": rng.randrange(n), "picks": [rng.random() for _ in range(rng.randint(1, 5))],
                         "container": rng.choice(["list", "ndarray", "tuple", "np.int64", "own_view", "own_view"]), "many": big and rng.random() < 0.6})
    if spec.get("huge") == "chain":
        tail = [{"op": "delete", "obj": 0, "picks": [rng.uniform(0.0, 1.0) if rng.random() < 0.4 else rng.uniform(0.85, 1.0) for _ in range(rng.randint(1, 4))],
                 "container": rng.choice(["list", "ndarray"])}]
    elif spec.get("huge"):
        tail = [{"op": "delete", "obj": 0, "picks": [rng.random() for _ in range(rng.randint(15, 40))], "container": rng.choice(["list", "ndarray"])}]
    spec["ops"] += tail
    spec["fanout_seed"] = rng.getrandbits(20)
    return spec


def execute(spec, ctx):
    seams.install_random(ctx, {"seed": spec["seed"]})
    pool = machine.build_pool(spec, ctx, "c10")
    # history, watching whether deletions hit atoms that carry terms
    for k, op in enumerate(spec["ops"]):
        if op["op"] in ("delete", "pop", "delete_touching"):
            o = op["obj"] % len(pool.real)
            if any(pool.model[o].terms[kk] for kk in refmodel.KINDS):
                ctx.count("deletions_touching_terms")
                ctx.notes["touch"] = True
        machine.run_history(pool, [op], ctx, "c10")
    # local fan-out: every non-empty subset (every listing order for <= 3 indices) on copies of the small objects
    for i in range(min(len(pool.real), 4)):
        r, m = pool.real[i], pool.model[i]
        n = len(m.atoms)
        if not 1 <= n <= 6:
            continue
        for size in range(1, n + 1):
            for sub in itertools.combinations(range(n), size):
                orders = itertools.permutations(sub) if size <= 3 else [sub, sub[::-1]]
                for order in orders:
                    rc = machine.guarded("c10", "copy", r.copy)
                    mc = m.clone()
                    machine.guarded("c10", "delete %s" % (list(order),), rc.__delitem__, list(order))
                    mc.delete(order)
                    where = "delete %s of %d atoms (exhaustive)" % (list(order), n)
                    refmodel.structural_invariants(rc, where)
                    refmodel.compare(refmodel.abstract(rc), mc, "c10", where)
                    ctx.count("exhaustive_subsets")
        # the original must be untouched by deletions on its copies
        refmodel.compare(refmodel.abstract(r), m, "c10", "copy independence")
    if ctx.notes.get("touch"):
        ctx.key(spec["objects"], spec["ops"])


shrink = machine.shrink_history


def sample_summary(spec):
    from . import c09
    return c09.sample_summary(dict(spec, faults=False))
