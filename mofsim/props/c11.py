"""C11 - extending a structure appends atoms and re-targets terms correctly (refinement of every extend transition)."""
import itertools

import numpy as np

from .. import machine, refmodel, seams
from ..core import Violation

ID = "C11"
RULE = ("one case = a short operation history (0-4 operations) producing the objects, followed by the extensions under test: default type "
        "merge, identity maps, repeated extension with explicit offsets from extend_types, self-extension, extension of/with emptied kinds and "
        "empty objects, extra columns merged by label; and - for every ordered pair of small objects (<= 4 and <= 3 atoms) - EVERY injective partial "
        "identity map applied to copies and compared with the reference model; distinct = distinct history hash; non-trivial = an extension "
        "involved terms or an identity map")
COMPONENTS = {"real": ["Atoms.extend, extend_types, _extend_extra_fields, find_existing_topo, copy, __delitem__ (to build states)", "numpy", "scipy.cdist", "ordered_set"],
              "stub": ["none needed: no random, clock or I/O on this path (stated in DESIGN: weakest fit of the technique)"],
              "oracle_only": ["mofsim.refmodel.RefAtoms.extend"]}
ASSUMPTIONS = ["objects of one world agree per term kind on whether a coefficient table exists (compatibility)",
               "for kinds without coefficient tables only the partition 'which terms share a type' is compared, not id values"]
NRUNS = {"quick": 6000, "thorough": 80000}
MUST_REACH = ["exhaustive_maps", "repeated_extension", "emptied_kind_then_extended", "superseded_terms"]


def generate(rng, tier):
    w = {"copy": 1, "subset": 0.5, "delete": 2, "delete_touching": 2, "delete_all": 0.4, "pop": 0.5, "translate": 0.3, "extend": 4, "replicate": 0.2}
    spec = machine.gen_world(rng, nobj=(2, 4), nops=(0, 4), weights=w, max_atoms=6, empty_prob=0.06, overlay=0.5)
    if rng.random() < 0.012:
        # a host with more than 2048 bonds; a two-atom fragment re-defines one of the LAST bonds, listed the other way round
        nat = rng.choice([1200, 2300, 2600])
        host = machine.gen_long_chain(rng, spec["cfg"], nat, cell=spec["objects"][0].get("cell") if not spec["objects"][0].get("empty") else None)
        i = rng.randint(int(0.8 * nat), nat - 2)
        frag = machine.gen_fragment(rng, spec["cfg"], "fr", natoms=2, cell=host.get("cell"), idiom="explicit")
        for k in refmodel.KINDS:
            frag[refmodel.PLURAL[k]], frag["%s_types" % k], frag["%s_type_coeffs" % k] = [], [], []
            frag["extra_%s_labels" % k], frag["extra_%s_fields" % k] = [], []
        fwd = host["bonds"][i] == [i, i + 1]
        frag["bonds"] = [[1, 0] if fwd else [0, 1]]       # the reverse of how the host lists it
        frag["bond_types"] = [0]
        frag["bond_type_coeffs"] = [machine.gen_coeff(rng, "frb")] if spec["cfg"]["tabled"]["bond"] else []
        spec["objects"] = [host, frag]
        spec["ops"] = [{"op": "extend", "obj": 0, "other": 1, "mode": "map", "map_frac": 1.0, "map_other": [0.0, 0.6],
                        "map_self": [(i + 0.5) / nat, (i + 1.5) / nat], "repeat": 2, "reuse_map": False}]
        spec["long_chain"] = True
        return spec
    n = len(spec["objects"])
    for _ in range(rng.randint(1, 4)):
        spec["ops"].append({"op": "extend", "obj": rng.randrange(n), "other": rng.randrange(n), "mode": rng.choice(["default", "map", "map", "repeat"]),
                            "map_frac": rng.random(), "map_other": [rng.random() for _ in range(6)], "map_self": [rng.random() for _ in range(6)],
                            "repeat": rng.randint(2, 3), "reuse_map": rng.random() < 0.3})
    return spec


def execute(spec, ctx):
    seams.install_random(ctx, {"seed": spec["seed"]})
    pool = machine.build_pool(spec, ctx, "c11")
    nontrivial = False
    for op in spec["ops"]:
        if op["op"] == "extend":
            o, j = op["obj"] % len(pool.real), op["other"] % len(pool.real)
            mo, mj = pool.model[o], pool.model[j]
            if any(mj.terms[k] for k in refmodel.KINDS) or op.get("mode") == "map":
                nontrivial = True
            # probe: will an existing term be superseded?
            if op.get("mode") == "map":
                ctx.count("identity_map_extensions")
        before = sum(len(pool.model[op["obj"] % len(pool.real)].terms[k]) for k in refmodel.KINDS) if op["op"] == "extend" else 0
        machine.run_history(pool, [op], ctx, "c11")
        if op["op"] == "extend" and op.get("mode") != "repeat":
            o, j = op["obj"] % len(pool.real), op["other"] % len(pool.real)
            after = sum(len(pool.model[o].terms[k]) for k in refmodel.KINDS)
            added = sum(len(pool.model[j].terms[k]) for k in refmodel.KINDS) if j != o else before
            if after < before + added:
                ctx.count("superseded_terms", before + added - after)
    # local fan-out: every injective partial identity map between small objects, on copies
    nobj = min(len(pool.real), 4)
    for a in range(nobj):
        for b in range(nobj):
            ma, mb = pool.model[a], pool.model[b]
            ns, no = len(ma.atoms), len(mb.atoms)
            if not (1 <= ns <= 4 and 1 <= no <= 3):
                continue
            for k in range(0, min(ns, no) + 1):
                for osel in itertools.combinations(range(no), k):
                    for ssel in itertools.permutations(range(ns), k):
                        imap = dict(zip(osel, ssel))
                        rc = machine.guarded("c11", "copy", pool.real[a].copy)
                        mc = ma.clone()
                        other_r = machine.guarded("c11", "copy", pool.real[b].copy) if a == b else pool.real[b]
                        kw = {"structure_index_map": dict(imap)} if imap else {}
                        where = "extend obj%d by obj%d map=%s (exhaustive)" % (a, b, imap)
                        machine.guarded("c11", where, rc.extend, other_r, **kw)
                        mc.extend(mb.clone(), index_map=imap)
                        refmodel.structural_invariants(rc, where)
                        refmodel.compare(refmodel.abstract(rc), mc, "c11", where)
                        ctx.count("exhaustive_maps")
            refmodel.compare(refmodel.abstract(pool.real[b]), mb, "c11", "other object untouched by extend")
    if nontrivial:
        ctx.key(spec["objects"], spec["ops"])


shrink = machine.shrink_history


def sample_summary(spec):
    from . import c09
    return c09.sample_summary(dict(spec, faults=False))
