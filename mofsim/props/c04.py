"""C04 - replacement changes exactly the matched atoms and nothing else."""
import collections
import math

import numpy as np

from .. import findcheck, geom, replcheck, seams, worlds
from ..core import Violation

ID = "C04"
RULE = ("one case = one generated periodic world with planted occurrences and full bystander metadata (explicit types, labels, masses, "
        "charges, groups), a search/replacement pattern pair (empty/smaller/equal/substituted/larger/disjoint/identity, shared atoms in any "
        "position), a replacement fraction and replace-all flag, replaced under 3 scripts of the random seam (which decide the tie-breaks and "
        "WHICH matches are sampled); distinct = distinct world hash; non-trivial = at least one match was actually replaced and the atom "
        "accounting oracle ran on the result")
COMPONENTS = {"real": ["mofun.replace_pattern_in_structure, find_pattern_in_structure, Atoms.extend/extend_types/__delitem__/copy", "numpy", "scipy"],
              "stub": ["random module inside mofun (SimRandom: tie-break choice and sample of matches)", "numpy.random.random (SimRandom)"],
              "tap": ["mofun.mofun.find_pattern_in_structure as called by replace_pattern_in_structure (observe + forward)"],
              "oracle_only": ["mofsim.replcheck atom accounting (exact-position identification of bystanders), independent shared-atom map"]}
ASSUMPTIONS = ["worlds whose selected matches share atoms are left to C07 (counted, not judged here)",
               "which k matches are replaced and the order of atoms in the result are not judged"]
NRUNS = {"quick": 5000, "thorough": 80000}
MUST_REACH = ["replaced_matches", "bystanders_checked"]   # only probes that do not depend on HOW the code under test works


def generate(rng, tier):
    spec = replcheck.gen_replace_world(rng)
    if rng.random() < 0.25:
        # second phase: the same world with some bystander atoms STORED outside the cell box (a legal object: unwrapped coordinates)
        spec["unwrap"] = {"picks": [rng.random() for _ in range(rng.randint(1, 4))],
                          "shifts": [[rng.choice([-2, -1, -1, 0, 1, 1, 2]) for _ in range(3)] for _ in range(4)]}
    return spec


def _unwrapped_phase(ctx, spec, search, replace):
    """Bystander atoms (atoms of no planted copy or decoy) stored outside the cell box: whatever the search makes of them, the
    caller's structure must come back unmodified, and such an atom - if no found match contains it - must be in the result
    exactly where it was stored."""
    spec, moved = replcheck.add_outside_bystanders(spec, spec["unwrap"])
    pos = np.array(spec["positions"], float).reshape(-1, 3)
    structure = replcheck.build_structure(spec)
    snap = replcheck.snapshot(structure)
    run = replcheck.run_replace(ctx, structure, search, replace, spec, spec["scripts"][0])
    replcheck.assert_unmodified(snap, structure, "structure (with atoms stored outside the cell box)")
    ctx.count("unwrapped_bystander_runs")
    if run.exc is not None or run.result is None:
        return
    matched = set(int(i) for t in (run.found[0] if run.found else []) for i in t) if run.found is not None else None
    if matched is None:
        return
    index = replcheck.exact_index(np.array(run.result.positions, float).reshape(-1, 3))
    rel = list(run.result.elements)
    for i in moved:
        if i in matched:
            continue
        key = tuple(float(x) for x in pos[i])
        if not [j for j in index.get(key, []) if rel[j] == spec["elements"][i]]:
            raise Violation("c04:bystander-lost-or-moved", "bystander atom %d (%s), stored outside the cell box at %s, is not in the result at that position"
                            % (i, spec["elements"][i], list(key)), site="replace")
        ctx.count("unwrapped_bystanders_checked")


def _is_overlap_error(e):
    return type(e).__name__ == "AtomsShouldNotBeDeletedTwice"


def execute(spec, ctx):
    findcheck.check_domain(spec)
    findcheck.world_reach_counters(ctx, spec)
    structure = replcheck.build_structure(spec)
    search = worlds.build_pattern(spec["pattern"])
    replace = replcheck.build_replacement(spec["replace"])
    snaps = [replcheck.snapshot(x) for x in (structure, search, replace)]
    seams.install_random(ctx, spec["scripts"][0])
    ctx.count("replacement_mode_%s" % spec["replace"]["mode"])
    nontrivial = False
    for k, script in enumerate(spec["scripts"][:3]):
        run = replcheck.run_replace(ctx, structure, search, replace, spec, script)
        for snap, obj, what in zip(snaps, (structure, search, replace), ("structure", "search_pattern", "replace_pattern")):
            replcheck.assert_unmodified(snap, obj, what)
        if run.exc is not None:
            if _is_overlap_error(run.exc):
                ctx.count("overlap_error_left_to_C07")
                continue
            raise Violation("raises:%s" % type(run.exc).__name__, str(run.exc), site="replace_pattern_in_structure")
        if run.found is None:
            ctx.count("tap_not_fired")
            ctx.rng.reset(script)
            r = findcheck.call_find(ctx, structure, search, spec["atol"], spec["hints"])
            run.found = ([tuple(int(i) for i in t) for t in r[0]], np.asarray(r[1], float), r[2])
            run.selected = list(range(len(r[0]))) if run.sampled is None else [int(i) for i in run.sampled]
        if k == 0 and not getattr(run, "found_reconstructed", False):
            # "only FOUND matches are replaced, f times the number FOUND": found means found by the search with the caller's own
            # arguments (tolerance, hints).  The public search, given what the replacement hands to its search (the pattern with its
            # first atom at the origin) under the same script, must see the same atom groups as the replacement worked on.
            import mofun
            ctx.rng.reset(script)
            s0 = search.copy()
            s0.translate(-np.array(s0.positions[0], float))
            try:
                pub = mofun.find_pattern_in_structure(structure, s0, atol=spec["atol"], **findcheck.hint_kwargs(spec.get("hints")))
            except Exception:
                pub = None
            if pub is not None:
                g_pub = sorted(sorted(int(i) for i in t) for t in pub)
                g_in = sorted(sorted(int(i) for i in t) for t in run.found[0])
                if g_pub != g_in:
                    raise Violation("c04:replacement-searched-differently", "the replacement worked on %d matches, the search with the same tolerance and hints finds %d (e.g. %s)"
                                    % (len(g_in), len(g_pub), [g for g in g_pub if g not in g_in][:1] or [g for g in g_in if g not in g_pub][:1]), site="replace")
                ctx.count("inner_search_equals_public_search")
        M = len(run.found[0])
        f = spec["fraction"]
        rep = run.reported
        if not isinstance(rep, (int, np.integer)) or rep < 0 or rep > M:
            raise Violation("c04:reported-count-invalid", "reported %r matches replaced, %d found" % (rep, M), site="replace")
        if abs(rep - f * M) > 0.5 + 1e-9:
            raise Violation("c04:fraction-not-rounded-to-nearest", "fraction %g of %d matches: %d replaced" % (f, M, rep), site="replace")
        if len(run.selected) != rep or len(set(run.selected)) != len(run.selected) or any(i < 0 or i >= M for i in run.selected):
            # the selection did not go through the seam in the expected way: cannot attribute, do not judge further
            ctx.count("selection_not_observed")
            continue
        sel = [run.found[0][i] for i in run.selected]
        if replcheck.overlapping(sel):
            ctx.count("overlapping_selection_left_to_C07")
            continue
        acc = replcheck.account(ctx, spec, structure, run)
        res = run.result
        # bystanders keep everything
        lab0, mass0 = list(structure.atom_type_labels), list(structure.atom_type_masses)
        rl, rm = list(res.atom_type_labels), list(res.atom_type_masses)
        for i, j in acc["bystander"].items():
            t0, t1 = int(structure.atom_types[i]), int(res.atom_types[j])
            if str(rl[t1]) != str(lab0[t0]):
                raise Violation("c04:bystander-label-changed", "atom %d: type label %r -> %r" % (i, lab0[t0], rl[t1]), site="replace")
            if float(rm[t1]) != float(mass0[t0]):
                raise Violation("c04:bystander-mass-changed", "atom %d: mass %r -> %r" % (i, mass0[t0], rm[t1]), site="replace")
            if float(res.charges[j]) != float(structure.charges[i]):
                raise Violation("c04:bystander-charge-changed", "atom %d: charge %r -> %r" % (i, structure.charges[i], res.charges[j]), site="replace")
            if int(res.groups[j]) != int(structure.groups[i]):
                raise Violation("c04:bystander-group-changed", "atom %d: group %r -> %r" % (i, structure.groups[i], res.groups[j]), site="replace")
            ctx.count("bystanders_checked")
        # inserted atoms: exactly k x (replacement-only atoms)
        smap = acc["smap"]
        only = [e for r, e in enumerate(spec["replace"]["elements"]) if r not in smap]
        want = collections.Counter()
        for e in only:
            want[e] += rep
        got = collections.Counter(res.elements[j] for j in acc["new"])
        if got != want:
            raise Violation("c04:inserted-atoms-wrong", "%d matches replaced: expected inserted atoms %s, result has %s besides bystanders/retained atoms"
                            % (rep, dict(want), dict(got)), site="replace")
        if len(res) != len(structure) - len(acc["removed"]) + rep * len(only):
            raise Violation("c04:atom-count", "result has %d atoms, expected %d" % (len(res), len(structure) - len(acc["removed"]) + rep * len(only)), site="replace")
        # the inserted atoms are the replacement pattern's atoms in the frame of the match (shared with C05)
        ctx.count("inserted_atoms_checked", replcheck.placement_oracle(ctx, spec, structure, run, acc, prefix="c04"))
        ctx.count("replaced_matches", rep)
        ctx.count("retained_atoms_checked", len(acc["retained"]))
        if rep:
            nontrivial = True
        ctx.event("c04", k, M, rep, len(res))
    if spec.get("unwrap"):
        _unwrapped_phase(ctx, spec, search, replace)
    if nontrivial:
        ctx.key(spec["cell"], spec["positions"], spec["pattern"], spec["replace"], spec["fraction"], spec["replace_all"])


def shrink(spec):
    import copy
    for s in worlds.shrink_find_world(spec):
        if "atom_types" in spec and len(s["elements"]) != len(spec["elements"]):
            # keep per-atom metadata aligned (drop_atoms handled charges/groups; types need the same treatment)
            keep = _kept(spec, s)
            if keep is None:
                continue
            s["atom_types"] = [spec["atom_types"][i] for i in keep]
        yield s
    if spec["fraction"] != 1.0:
        s = copy.deepcopy(spec)
        s["fraction"] = 1.0
        yield s
    if spec["replace_all"]:
        s = copy.deepcopy(spec)
        s["replace_all"] = False
        yield s
    n = len(spec["replace"]["elements"])
    for i in range(n):
        s = copy.deepcopy(spec)
        for k in ("elements", "positions", "charges", "groups", "extra_atom_fields"):
            if s["replace"].get(k) is not None:
                del s["replace"][k][i]
        yield s


def _kept(spec, s):
    """indices of spec's atoms that survive in s (positions are unique)."""
    idx = {tuple(p): i for i, p in enumerate(spec["positions"])}
    try:
        return [idx[tuple(p)] for p in s["positions"]]
    except KeyError:
        return None


def sample_summary(spec):
    return {"cell": spec["cell"], "n_atoms": len(spec["elements"]), "pattern": spec["pattern"], "replace": spec["replace"],
            "fraction": spec["fraction"], "replace_all": spec["replace_all"], "atol": spec["atol"], "hints": spec["hints"],
            "planted": spec["planted"], "meta": spec["meta"]}
