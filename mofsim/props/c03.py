"""C03 - search results do not depend on how crystal or pattern are represented."""
import os
import random

import numpy as np

from .. import findcheck, geom, seams, worlds
from ..core import Violation, HarnessError, REPO_DIR

ID = "C03"
RULE = ("one case = a base world (synthetic with planted copies, or one of the repository's real MOF files read through the "
        "simulated file seam) plus 2-5 re-presentations (shift+wrap, atom permutation, rigid motion of the pattern, other valid "
        "hint triple, other RNG script, a x b x c supercell via Atoms.replicate); each pair (base, re-presentation) is one "
        "comparison; distinct = distinct (world, re-presentation) hash; non-trivial = the base search reported >= 1 group with "
        "certified margin, so the pair relation actually constrained something")
COMPONENTS = {"real": ["mofun.find_pattern_in_structure", "Atoms.replicate", "Atoms.load (CIF via PyCifRW, CML via xml.etree) for real files",
                       "numpy", "scipy", "PyCifRW", "ase (xyz reader for benzene)"],
              "stub": ["random module inside mofun (SimRandom)", "numpy.random.random (SimRandom)", "file objects handed to Atoms.load (SimTextFile on SimFS)"],
              "oracle_only": ["mofsim.geom (Kabsch residuals, lattice folding)"]}
ASSUMPTIONS = ["a group must survive a re-presentation only if its residual under the best rigid fit is <= atol/(2K) for the hints used on the "
               "other side (certified margin); other groups may legitimately flip",
               "supercell counts are asserted only when every cell width exceeds twice (pattern diameter + 2 atol), so that two periodic images "
               "of one unit-cell group cannot be distinct occurrences"]
NRUNS = {"quick": 2500, "thorough": 30000}
RUN_TIMEOUT = 240.0

REAL = [
    ("tests/uio66/uio66.cif", "tests/uio66/uio66-linker.cml", 0.05),
    ("tests/uio66/uio66-triclinic.cif", "tests/uio66/uio66-linker.cml", 0.2),
    ("tests/hkust-1/hkust-1-with-bonds.cif", "tests/molecules/benzene.xyz", 0.05),
    ("docs/examples/uio66.cif", "docs/examples/uio66-linker.cml", 0.05),
    ("docs/examples/uio66.cif", "docs/examples/uio66-metal-center-simple.cml", 0.05),
    ("tests/uio66/uio66.cif", "tests/uio66/uio66-linker.cif", 0.05),
]


def _gen_reps(rng, n_atoms, pat_n, real):
    kinds = ["shift", "perm", "pattern_motion", "hints", "script", "replicate", "combo"]
    reps = []
    for _ in range(rng.randint(2, 3) if real else rng.randint(2, 5)):
        k = rng.choice(kinds)
        if real and k == "replicate" and rng.random() < 0.8:
            k = "shift"
        rep = {"kind": k}
        if k in ("shift", "combo"):
            rep["shift_frac"] = [rng.uniform(-1.5, 1.5) for _ in range(3)]
        if k in ("perm", "combo"):
            rep["perm_seed"] = rng.getrandbits(30)
        if k in ("pattern_motion", "combo"):
            rep["R"] = geom.random_rotation(rng).tolist() if rng.random() < 0.8 else geom.CUBE_ROTS[rng.randrange(24)].tolist()
            rep["t"] = [rng.uniform(-20, 20) for _ in range(3)]
        if k in ("hints", "combo"):
            rep["hint_seed"] = rng.getrandbits(30)
        if k in ("script", "combo"):
            rep["script"] = {"choice": {"kind": rng.choice(["first", "last", "alternate", "mt"])}, "axis": {"kind": "mt"},
                             "seed": rng.getrandbits(30)}
        if k == "replicate":
            dims = rng.choice([[2, 1, 1], [1, 2, 1], [1, 1, 2], [2, 2, 1], [1, 2, 3], [3, 1, 2], [2, 1, 2], [2, 2, 2]])
            if real:
                dims = rng.choice([[2, 1, 1], [1, 2, 1], [1, 1, 2]])
            rep["dims"] = dims
        reps.append(rep)
    return reps


def generate(rng, tier):
    if rng.random() < (0.06 if tier == "quick" else 0.08):
        s, p, atol = rng.choice(REAL)
        return {"seed": rng.getrandbits(31), "real": {"structure": s, "pattern": p}, "atol": atol,
                "base_hint_seed": rng.getrandbits(30) if rng.random() < 0.3 else None,
                "read_script": {"chunk": rng.choice(["whole", "prime", "random", "one"]), "seed": rng.getrandbits(20)},
                "scripts": worlds.default_scripts(rng)[:1], "reps": _gen_reps(rng, None, None, True), "meta": {"family": "real"}}
    want_repl = rng.random() < 0.35
    if want_repl:
        # roomy cell needed for the supercell clause: widths > 2 (D + 2 atol)
        spec = worlds.gen_find_world(rng, max_atoms=26, max_copies=3, min_copies=1, width_mult=2.1, no_tight=True)
    elif rng.random() < 0.1:
        # an exact world: pattern axis exactly along a coordinate axis, noise-free copies in exact quarter/half-turn poses, the
        # pattern re-presented in exact quarter/half turns (vectors that are bitwise opposite or equal, cross products exactly 0)
        spec = worlds.gen_find_world(rng, min_copies=2, max_atoms=30, noise=False, force_axis_exact=True, poses=["aligned"], decoys=rng.random() < 0.3)
        spec["exact_world"] = True
    elif rng.random() < 0.25:
        # any listing of a triclinic lattice is a structure of the supported domain: arbitrarily rotated, upper-triangular, left-handed
        spec = worlds.gen_find_world(rng, min_copies=1, allow_rotated=True, cell_families=["tri_rotated", "tri_upper", "tri_left", "tri_upper", "tri_left"])
    else:
        spec = worlds.gen_find_world(rng, min_copies=1)
    spec["reps"] = _gen_reps(rng, len(spec["elements"]), len(spec["pattern"]["elements"]), False)
    if spec.get("exact_world"):
        half = [[1, -1, -1], [-1, 1, -1], [-1, -1, 1]]
        for i in range(3):
            spec["reps"].append({"kind": "pattern_motion", "R": np.diag(np.array(half[i], float)).tolist() if rng.random() < 0.7 else geom.CUBE_ROTS[rng.randrange(24)].tolist(),
                                 "t": [0.0, 0.0, 0.0] if rng.random() < 0.5 else [float(rng.randint(-3, 3)) for _ in range(3)]})
    if want_repl and not any(r["kind"] == "replicate" for r in spec["reps"]):
        spec["reps"].append({"kind": "replicate", "dims": rng.choice([[2, 1, 1], [1, 2, 3], [2, 2, 1], [1, 1, 2], [3, 1, 2]])})
    spec["scripts"] = spec["scripts"][:1]
    return spec


def _load_real(ctx, spec):
    """Load the repository's real files through the library's own readers, served from the simulated file seam."""
    import ase.io
    from mofun import Atoms
    fs = seams.install_fs(ctx)
    out = []
    for key in ("structure", "pattern"):
        rel = spec["real"][key]
        path = os.path.join(REPO_DIR, rel)
        ext = os.path.splitext(rel)[1][1:]
        if ext == "xyz":
            a = Atoms.from_ase_atoms(ase.io.read(path))
        else:
            with open(path) as f:
                text = f.read()
            fh = fs.reader(text, name=rel, script=spec.get("read_script"))
            try:
                a = Atoms.load(fh, filetype=ext)
            except Exception as e:
                raise Violation("raises:%s" % type(e).__name__, "loading %s through an open file: %s" % (rel, e), site="Atoms.load")
            fh.close()
        out.append(a)
    return out


def _search(ctx, els, pos, cell, pel, P, atol, hints, script, derive_from=None, back=None):
    from mofun import Atoms
    if derive_from is not None and back is not None and len(back) == len(derive_from):
        # the re-presented structure is made the way callers edit structures: copy an object that has already been searched
        # and assign its per-atom arrays (anything cached on the object must follow the arrays)
        S = derive_from.copy()
        S.positions = np.asarray(pos, float).reshape(-1, 3).copy()
        S.atom_types = np.array(derive_from.atom_types)[list(back)]
        S.charges = np.array(derive_from.charges)[list(back)]
        S.groups = np.array(derive_from.groups)[list(back)]
        ctx.count("representations_made_by_copy_and_assign")
    else:
        S = Atoms(elements=list(els), positions=np.asarray(pos, float).reshape(-1, 3), cell=np.asarray(cell, float))
    pat = Atoms(elements=list(pel), positions=np.asarray(P, float).reshape(-1, 3))
    ctx.rng.reset(script)
    idxs, positions, quats = findcheck.call_find(ctx, S, pat, atol, hints)
    res = {}
    for tup, X in zip(idxs, positions):
        if len(P) > 1:
            _, _, dev = geom.kabsch(P, np.asarray(X, float))
            mx = float(dev.max())
        else:
            mx = 0.0
        g = frozenset(int(i) for i in tup)
        res[g] = min(mx, res.get(g, np.inf))
    return res, len(idxs), S


def execute(spec, ctx):
    rng = seams.install_random(ctx, spec["scripts"][0])
    atol = spec["atol"]
    if "real" in spec:
        S0, P0 = _load_real(ctx, spec)
        els, pos, cell = list(S0.elements), np.array(S0.positions, float), np.array(S0.cell, float)
        pel, P = list(P0.elements), np.array(P0.positions, float)
        hints = None
        if spec.get("base_hint_seed") is not None:
            hints = worlds.pick_hints(random.Random(spec["base_hint_seed"]), P, prob=1.0)
        ctx.count("real_file_runs")
    else:
        findcheck.check_domain(spec)
        findcheck.world_reach_counters(ctx, spec)
        els, pos, cell = spec["elements"], np.array(spec["positions"], float).reshape(-1, 3), np.array(spec["cell"], float)
        pel, P = spec["pattern"]["elements"], np.array(spec["pattern"]["positions"], float).reshape(-1, 3)
        hints = spec["hints"]
    N = len(els)
    D = geom.diameter(P)
    K_A = geom.amplification_K(P, hints)
    base, nbase, Sbase = _search(ctx, els, pos, cell, pel, P, atol, hints, spec["scripts"][0])
    certified_any = False
    for ri, rep in enumerate(spec["reps"]):
        kind = rep["kind"]
        ctx.count("rep_%s" % kind)
        els_b, pos_b, P_b, hints_b, script_b = list(els), pos.copy(), P.copy(), hints, spec["scripts"][0]
        back = list(range(N))          # back[new index] = base index
        if "shift_frac" in rep:
            pos_b = geom.wrap(pos_b + np.array(rep["shift_frac"]) @ cell, cell)
        if "perm_seed" in rep:
            perm = list(range(N))
            random.Random(rep["perm_seed"]).shuffle(perm)
            els_b = [els_b[i] for i in perm]
            pos_b = pos_b[perm]
            back = perm
        if "R" in rep:
            P_b = P @ np.array(rep["R"], float).T + np.array(rep["t"], float)
        if "hint_seed" in rep:
            hints_b = worlds.pick_hints(random.Random(rep["hint_seed"]), P, prob=1.0)
            if hints_b and 0 in [h for h in hints_b if h is not None]:
                ctx.count("hint_index_0_used")
        if "script" in rep:
            script_b = rep["script"]
        K_B = geom.amplification_K(P_b, hints_b)
        if kind == "replicate":
            if geom.perp_widths(cell).min() <= 2.0 * (D + 2 * atol):
                ctx.count("replicate_skipped_cell_not_roomy")
                continue
            dims = [int(d) for d in rep["dims"]]
            ctx.event("op", "replicate", dims)
            try:
                sup = Sbase.replicate(tuple(dims))
            except Exception as e:
                raise Violation("raises:%s" % type(e).__name__, "replicate%s: %s" % (tuple(dims), e), site="Atoms.replicate")
            sel = list(sup.elements)
            spos = np.array(sup.positions, float)
            scell = np.array(sup.cell, float)
            if len(sel) != N * dims[0] * dims[1] * dims[2]:
                raise Violation("c03:supercell-atom-count", "replicate%s gave %d atoms from %d" % (tuple(dims), len(sel), N), site="Atoms.replicate")
            # fold supercell atoms back to unit-cell atoms by position modulo the unit lattice (order-independent)
            fu = geom.frac(pos, cell) % 1.0
            fs_ = geom.frac(spos, cell)
            fold = []
            for j in range(len(sel)):
                d = fu - (fs_[j] % 1.0)
                d -= np.round(d)
                dist = np.abs(d).max(axis=1)
                i = int(np.argmin(dist))
                if dist[i] > 1e-6 or els[i] != sel[j]:
                    raise Violation("c03:supercell-atom-not-an-image", "supercell atom %d (%s) is no lattice image of a unit-cell atom (frac residual %.3g)"
                                    % (j, sel[j], dist[i]), site="Atoms.replicate")
                fold.append(i)
            resB, nB, _ = _search(ctx, sel, spos, scell, pel, P, atol, hints, script_b)
            mult = dims[0] * dims[1] * dims[2]
            counts = {}
            for g, mx in resB.items():
                gf = frozenset(fold[j] for j in g)
                counts[gf] = counts.get(gf, 0) + 1
                if mx <= atol / (2 * K_A) and gf not in base:
                    raise Violation("c03:supercell-only-occurrence", "supercell %s reports a certified occurrence folding to unit atoms %s that the unit-cell search lacks"
                                    % (dims, sorted(gf)), site="find")
            for g, mx in base.items():
                if mx <= atol / (2 * K_A):
                    certified_any = True
                    if counts.get(g, 0) != mult:
                        raise Violation("c03:supercell-count", "unit-cell occurrence %s appears %d times in the %s supercell, expected %d"
                                        % (sorted(g), counts.get(g, 0), dims, mult), site="find")
            ctx.count("supercell_comparisons")
            continue
        resB, nB, _ = _search(ctx, els_b, pos_b, cell, pel, P_b, atol, hints_b, script_b,
                              derive_from=Sbase if (ri + spec["seed"]) % 2 == 0 else None, back=back)
        mappedB = {frozenset(back[j] for j in g): mx for g, mx in resB.items()}
        if len(mappedB) != len(resB):
            raise Violation("c03:duplicate-groups", "re-presented search reports the same atom group more than once", site="find")
        for g, mx in base.items():
            if mx <= atol / (2 * K_B):
                certified_any = True
                if g not in mappedB:
                    raise Violation("c03:group-lost-under-%s" % kind, "group %s (residual %.3g, atol %g) found on the base representation but not after %s"
                                    % (sorted(g), mx, atol, _describe(rep)), site="find")
        for g, mx in mappedB.items():
            if mx <= atol / (2 * K_A) and g not in base:
                raise Violation("c03:group-gained-under-%s" % kind, "group %s (residual %.3g, atol %g) found only after %s"
                                % (sorted(g), mx, atol, _describe(rep)), site="find")
        ctx.count("pair_comparisons")
    if certified_any:
        ctx.count("runs_with_certified_groups")
        ctx.key(spec.get("real"), spec.get("positions"), spec.get("pattern"), spec["reps"])


def _describe(rep):
    return ", ".join(k for k in ("shift_frac", "perm_seed", "R", "hint_seed", "script", "dims") if k in rep)


def shrink(spec):
    import copy
    if len(spec.get("reps", [])) > 1:
        for i in range(len(spec["reps"])):
            s = copy.deepcopy(spec)
            s["reps"] = [spec["reps"][i]]
            yield s
    for i, rep in enumerate(spec.get("reps", [])):
        if rep["kind"] == "combo":
            for k in ("shift_frac", "perm_seed", "hint_seed", "script"):
                if k in rep:
                    s = copy.deepcopy(spec)
                    del s["reps"][i][k]
                    yield s
            if "R" in rep:
                s = copy.deepcopy(spec)
                del s["reps"][i]["R"]
                del s["reps"][i]["t"]
                yield s
    if "real" not in spec:
        for s in worlds.shrink_find_world(spec):
            if any("perm_seed" in r for r in s.get("reps", [])) or True:
                yield s


def sample_summary(spec):
    d = {k: spec.get(k) for k in ("real", "atol", "hints", "reps", "meta")}
    if "real" not in spec:
        d.update(n_atoms=len(spec["elements"]), pattern=spec["pattern"], cell=spec["cell"], planted=spec["planted"])
    return d


def _probe_hint_dependence_on_strained_matches():
    """Deterministic probe of the listed finding: tests/uio66/uio66-triclinic.lmpdat + linker at atol=0.2 finds 6 linkers
    without hints (each within 0.115 A of the pattern under the best rigid fit) but fewer with the valid hint triple (14, 12, 9)."""
    import io
    import sys
    from mofun import Atoms, find_pattern_in_structure
    old = sys.stdout, sys.stderr
    sys.stdout, sys.stderr = io.StringIO(), io.StringIO()
    try:
        S = Atoms.load(os.path.join(REPO_DIR, "tests/uio66/uio66-triclinic.lmpdat"), atom_format="full")
        P = Atoms.load(os.path.join(REPO_DIR, "tests/uio66/uio66-linker.cml"))
        a = find_pattern_in_structure(S, P, atol=0.2)
        b = find_pattern_in_structure(S, P, atol=0.2, axisp1_idx=14, axisp2_idx=12, opoint_idx=9)
    finally:
        sys.stdout, sys.stderr = old
    return len(a) == 6 and len(b) != 6


known_finding_probes = {"hints-change-result-for-strained-matches": _probe_hint_dependence_on_strained_matches}
