"""The stateful simulation of a pool of mofun.Atoms objects against RefAtoms twins (C09; C10-C12 as focused workloads).

spec = {"cfg": world config, "objects": [fragment specs], "ops": [operation dicts]}
Operation arguments are 'picks' (floats in [0,1)) resolved against the CURRENT size of the object at execution time, so a
history stays meaningful when the minimiser drops earlier operations.
"""
import copy
import math

import numpy as np

from . import geom, refmodel, seams
from .core import Violation, HarnessError, OutOfDomain
from .refmodel import KINDS, ARITY, PLURAL, XKINDS, RefAtoms

# elements on which a LAMMPS restart (elements re-derived from masses) is the identity for the pinned loader: light
# elements in increasing-mass order (C14's subject is not judged here)
SAFE_ELEMENTS = ["H", "C", "N", "O", "F", "Si", "P", "S", "Cl", "Cu", "Zn", "Br", "Zr"]
COEFF_STYLES = ["harmonic", "fourier", "cosine/periodic", "lj/cut", "class2"]


def gen_cfg(rng, restartable=True):
    kinds = [k for k in KINDS if rng.random() < 0.7]
    return {
        "kinds": kinds,
        "tabled": {k: rng.random() < 0.6 for k in KINDS},
        "pair": rng.random() < 0.5,
        # (column names in no particular alphabetical order: file order, not sorted order, is what a round trip has to keep)
        "xlabels": {k: ([n_ % k for n_ in rng.sample(["_x_%s_order", "_x_%s_dist", "_x_%s_ff10", "_x_%s_ff2", "_x_%s_0", "_x_%s_Zeta"], rng.randint(1, 3))]
                        if rng.random() < 0.3 else []) for k in XKINDS},
        "cell_family": rng.choice(["ortho", "ortho", "tri_pos", "tri_neg", "tri_mixed", "cubic", "tri_rotated", "ortho_rotated", "tri_big"] if not restartable else
                                  ["ortho", "ortho", "tri_pos", "tri_neg", "tri_mixed", "cubic", "tri_big", "tri_tiny"]),
        "table_container": rng.choice(["list", "ndarray", "tuple"]),
    }


def gen_coeff(rng, tag):
    toks = [rng.choice(COEFF_STYLES)] + ["%.*f" % (rng.choice([1, 3, 6]), rng.uniform(-5, 500)) for _ in range(rng.randint(1, 3))]
    if rng.random() < 0.3:
        toks.append(str(rng.randint(-3, 3)))
    s = " ".join(toks) if rng.random() < 0.7 else "  ".join(toks)
    if rng.random() < 0.5:
        # trailing comment of one or several words (force-field files list the atom types of the term there)
        words = [tag] + [rng.choice(["C_R", "O_2", "H_", "Zr8f4", "N_3", "x1"]) for _ in range(rng.choice([0, 0, 1, 2, 3]))]
        s += "   # " + " ".join(words)
    return s


def gen_fragment(rng, cfg, name, natoms=None, cell=None, idiom=None, elements=None, atom_elements=None, positions=None,
                 label_scheme=None):
    """Fragment spec: the arguments of one Atoms(...) construction, fully resolved (explicit type tables).
    atom_elements/positions: per-atom elements and coordinates prescribed by the caller (patterns)."""
    n = rng.randint(1, 10) if natoms is None else natoms
    if atom_elements is not None:
        n = len(atom_elements)
        idiom = "explicit"
    els_pool = elements or rng.sample(SAFE_ELEMENTS, rng.randint(1, 4))
    idiom = idiom or rng.choice(["explicit", "explicit", "elements_list", "elements_string"])
    fs = {"name": name, "idiom": idiom, "cell": cell}
    if cell is not None:
        c = np.array(cell, float)
        pos = (np.array([[rng.random() for _ in range(3)] for _ in range(n)]) @ c)
    else:
        pos = np.array([[rng.uniform(-5, 15) for _ in range(3)] for _ in range(n)])
    if rng.random() < 0.2:
        pos = np.round(pos, 3)
    if rng.random() < 0.15 and n:
        pos[rng.randrange(n)] *= -1.0          # negative coordinates are legal
    if positions is not None:
        pos = np.array(positions, float).reshape(-1, 3)
    fs["positions"] = pos.tolist()
    if atom_elements is not None:
        from mofun.atomic_masses import ATOMIC_MASSES
        type_of, types, t_el = {}, [], []
        nvar = rng.choice([1, 1, 2])
        for e in atom_elements:
            key = (e, rng.randrange(nvar))
            if key not in type_of:
                type_of[key] = len(t_el)
                t_el.append(e)
            types.append(type_of[key])
        if label_scheme:
            t_lab = [label_scheme % (e, 1 + sum(1 for x in t_el[:i] if x == e)) for i, e in enumerate(t_el)]
        else:
            t_lab = ["%s_%s%d" % (e, name, i) for i, e in enumerate(t_el)]
        t_mass = [round(ATOMIC_MASSES[e] + 0.0007 * (i + 1), 4) for i, e in enumerate(t_el)]
    elif idiom == "explicit":
        ntypes = rng.randint(1, min(4, max(1, n)))
        t_el = [rng.choice(els_pool) for _ in range(ntypes)]
        types = [rng.randrange(ntypes) for _ in range(n)]
        # every type in use at least once is NOT required (a subset keeps all tables); sometimes force an unused one
        t_lab = ["%s_%s%d" % (e, name, i) for i, e in enumerate(t_el)] if rng.random() < 0.8 else list(t_el)
        if ntypes >= 2 and rng.random() < 0.04:
            t_lab[rng.randrange(ntypes)] = ""       # labels are free text: an empty one is unusual, not illegal
        from mofun.atomic_masses import ATOMIC_MASSES
        t_mass = [round(ATOMIC_MASSES[e] + (0.0005 * i if rng.random() < 0.5 else 0.0), 4) for i, e in enumerate(t_el)]
    else:
        elems = [rng.choice(els_pool) for _ in range(n)]
        t_el = list(dict.fromkeys(elems))
        types = [t_el.index(e) for e in elems]
        t_lab = list(t_el)
        from mofun.atomic_masses import ATOMIC_MASSES
        t_mass = [ATOMIC_MASSES[e] for e in t_el]
        fs["elements_arg"] = elems
    fs["atom_types"], fs["atom_type_elements"], fs["atom_type_labels"], fs["atom_type_masses"] = types, t_el, t_lab, t_mass
    fs["charges"] = [round(rng.uniform(-2, 2), rng.choice([2, 4, 6])) for _ in range(n)] if rng.random() < 0.8 else None
    fs["groups"] = [rng.randint(0, 3) for _ in range(n)] if rng.random() < 0.6 else None
    fs["pair_coeffs"] = [gen_coeff(rng, "p%s%d" % (name, i)) for i in range(len(t_el))] if cfg["pair"] else []
    lab = cfg["xlabels"]["atom"]
    use = [l for l in lab if rng.random() < 0.7]
    fs["extra_atom_labels"] = use
    # values of very different lengths (a fixed-width string array would silently truncate the longer ones)
    longv = rng.random() < 0.5
    fs["extra_atom_fields"] = [[("a%s%d_%d" % (name, i, j)) + ("_long_value" * rng.randint(0, 2) if longv else "") if rng.random() < 0.8 else str(rng.randint(0, 9))
                                for j in range(len(use))] for i in range(n)] if use else []
    for k in KINDS:
        tuples, ttypes = [], []
        if k in cfg["kinds"] and n >= ARITY[k] and rng.random() < 0.8:
            for _ in range(rng.randint(1, 6)):
                tup = rng.sample(range(n), ARITY[k])
                tuples.append(tup)
                if rng.random() < 0.25:
                    # the same atoms again in another (non-reversed) order: a different term of the same kind
                    p = list(tup)
                    rng.shuffle(p)
                    if p != tup and p != tup[::-1]:
                        tuples.append(p)
            nt = rng.randint(1, 3)
            ttypes = [rng.randrange(nt) for _ in tuples]
            table = [gen_coeff(rng, "%s%s%d" % (k[0], name, i)) for i in range(nt)] if cfg["tabled"][k] else []
        else:
            table = []
        fs[PLURAL[k]] = tuples
        fs["%s_types" % k] = ttypes
        fs["%s_type_coeffs" % k] = table
        use = [l for l in cfg["xlabels"][k] if rng.random() < 0.7] if tuples else []
        fs["extra_%s_labels" % k] = use
        fs["extra_%s_fields" % k] = [[("%s%s%d_%d" % (k[0], name, i, j)) + ("_long_value" * rng.randint(0, 2) if longv else "") if rng.random() < 0.8 else str(rng.randint(0, 9))
                                      for j in range(len(use))] for i in range(len(tuples))] if use else []
    fs["container"] = cfg.get("table_container", "list")
    return fs


def build_real(fs):
    """Call the real constructor the way the fragment's idiom says."""
    from mofun import Atoms
    cont = {"list": list, "tuple": tuple, "ndarray": np.array}.get(fs.get("container", "list"), list)
    kw = {"positions": cont(fs["positions"]) if fs["positions"] else []}
    if fs.get("cell") is not None:
        kw["cell"] = np.array(fs["cell"], float)
    if fs["idiom"] == "explicit":
        kw.update(atom_types=cont(fs["atom_types"]), atom_type_elements=list(fs["atom_type_elements"]),
                  atom_type_labels=list(fs["atom_type_labels"]), atom_type_masses=cont(fs["atom_type_masses"]))
    elif fs["idiom"] == "elements_string":
        kw["elements"] = "".join(fs["elements_arg"])
    else:
        kw["elements"] = list(fs["elements_arg"])
    if fs.get("charges") is not None:
        kw["charges"] = cont(fs["charges"])
    if fs.get("groups") is not None:
        kw["groups"] = cont(fs["groups"])
    if fs.get("pair_coeffs"):
        kw["pair_coeffs"] = list(fs["pair_coeffs"])
    if fs.get("extra_atom_labels"):
        kw["extra_atom_labels"] = list(fs["extra_atom_labels"])
        kw["extra_atom_fields"] = [list(r) for r in fs["extra_atom_fields"]]
    for k in KINDS:
        if fs[PLURAL[k]]:
            kw[PLURAL[k]] = cont(fs[PLURAL[k]])
            kw["%s_types" % k] = cont(fs["%s_types" % k])
        if fs["%s_type_coeffs" % k]:
            kw["%s_type_coeffs" % k] = list(fs["%s_type_coeffs" % k])
        if fs.get("extra_%s_labels" % k):
            kw["extra_%s_labels" % k] = list(fs["extra_%s_labels" % k])
            kw["extra_%s_fields" % k] = [list(r) for r in fs["extra_%s_fields" % k]]
    return Atoms(**kw)


def pick_indices(picks, n, distinct=True):
    out = []
    for p in picks:
        i = min(n - 1, int(p * n))
        if distinct:
            tries = 0
            while i in out and tries < n:
                i = (i + 1) % n
                tries += 1
            if i in out:
                continue
        out.append(i)
    return out


def as_container(idxs, how, real=None):
    if how == "own_view" and real is not None:
        # the caller passes a row of the object's own term array (a numpy view): del a[a.bonds[k]]
        want = sorted(int(i) for i in idxs)
        for kind in ("bonds", "angles", "dihedrals", "impropers"):
            arr = getattr(real, kind)
            for k in range(len(arr)):
                if sorted(int(x) for x in arr[k]) == want and len(set(want)) == len(want):
                    return arr[k]
        return list(idxs)
    return _as_container(idxs, how)


def _as_container(idxs, how):
    if how == "tuple":
        return tuple(idxs)
    if how == "ndarray":
        return np.array(idxs, dtype=int)
    if how == "np.int64":
        return [np.int64(i) for i in idxs]
    return list(idxs)


# ---------------------------------------------------------------------------------------------------------------
# the machine

class Pool:
    def __init__(self, ctx, prefix="c09"):
        self.ctx = ctx
        self.real = []
        self.model = []
        self.prefix = prefix
        self.signatures = set()

    def add(self, real, model):
        self.real.append(real)
        self.model.append(model)
        return len(self.real) - 1

    def check_all(self, where, touched=(), snapshots=None, **cmp_kw):
        from . import replcheck
        for i, (r, m) in enumerate(zip(self.real, self.model)):
            if r is None:
                continue
            if snapshots is not None and i not in touched:
                if i < len(snapshots) and snapshots[i] is not None and replcheck.snapshot(r) != snapshots[i]:
                    raise Violation("%s:untouched-object-changed" % self.prefix, "object %d changed although the operation did not involve it (%s)" % (i, where), site=where.split(" ")[0])
                continue
            refmodel.structural_invariants(r, where)
            refmodel.compare(refmodel.abstract(r), m, self.prefix, where, **cmp_kw)
            self.signature(r)
            self.ctx.count("comparisons")
            if cmp_kw.get("order") == "any":
                # equivalence up to atom order established: continue the history in the real object's order
                self.model[i] = refmodel.abstract(r)

    def signature(self, r):
        sig = (type(r.atom_type_elements).__name__, type(r.atom_type_labels).__name__, type(r.atom_type_masses).__name__,
               str(np.asarray(r.atom_types).dtype), np.asarray(r.bonds).shape[1:] if len(r.bonds) else np.asarray(r.bonds).shape,
               str(np.asarray(r.extra_atom_fields).dtype), len(r) == 0)
        s = repr(sig)
        if s not in self.signatures:
            self.signatures.add(s)
            self.ctx.count("representation_signatures")

    def snapshots(self):
        from . import replcheck
        return [None if r is None else replcheck.snapshot(r) for r in self.real]


def guarded(prefix, where, fn, *a, **kw):
    """Run a real operation that the property says yields a result on this input."""
    try:
        return fn(*a, **kw)
    except Violation:
        raise
    except Exception as e:
        raise Violation("raises:%s" % type(e).__name__, "%s: %s" % (where, e), site=where.split(" ")[0])


def apply_op(pool, op, ctx, prefix="c09"):
    """Apply one operation to the real objects and to the model; returns set of touched object indices."""
    kind = op["op"]
    R, M = pool.real, pool.model
    where = kind
    ctx.event("op", op)
    ctx.count("op_%s" % kind)
    if kind == "copy":
        s = op["src"] % len(R)
        r = guarded(prefix, "copy", R[s].copy)
        return {pool.add(r, M[s].clone())}
    if kind == "subset":
        s = op["src"] % len(R)
        n = len(M[s].atoms)
        if n == 0:
            return set()
        idx = pick_indices(op["picks"], n)
        r = guarded(prefix, "subset %s" % idx, R[s].__getitem__, as_container(idx, op.get("container", "list")))
        return {pool.add(r, M[s].subset(idx))}
    if kind in ("delete", "delete_touching", "delete_all"):
        o = op["obj"] % len(R)
        n = len(M[o].atoms)
        if n == 0:
            return set()
        if kind == "delete":
            idx = pick_indices(op["picks"], n)
        elif kind == "delete_all":
            idx = list(range(n))
            if op.get("reverse"):
                idx = idx[::-1]
        else:
            k = op["kind"]
            idx = sorted(set(a for t in M[o].terms[k] for a in t.atoms))
            if not idx:
                return set()
            ctx.count("emptied_kind")
        if not idx:
            return set()
        if op.get("container") == "own_view":
            # delete exactly the atoms of one of the object's own terms, passing the term row itself
            rows = [t.atoms for kk in KINDS for t in M[o].terms[kk] if len(set(t.atoms)) == len(t.atoms)]
            if rows:
                idx = list(rows[int(op["picks"][0] * len(rows)) % len(rows)])
                ctx.count("deletions_by_own_term_view")
        if op.get("many") and n > 12:
            # delete a large scattered subset (sparse survivors with high indices)
            keep = set(pick_indices(op["picks"], n))
            idx = [i for i in range(n) if i not in keep]
            ctx.count("large_deletions")
        guarded(prefix, "delete %s" % (idx,), R[o].__delitem__, as_container(idx, op.get("container", "list"), R[o]))
        M[o].delete(idx)
        if len(M[o].atoms) == 0:
            ctx.count("all_atoms_deleted")
        return {o}
    if kind == "pop":
        o = op["obj"] % len(R)
        n = len(M[o].atoms)
        if n == 0:
            return set()
        if op.get("pos") is None:
            guarded(prefix, "pop()", R[o].pop)
            i = n - 1
        else:
            i = min(n - 1, int(op["pos"] * n))
            arg = i - n if op.get("negative") else i          # counting from the end, as with lists
            if op.get("negative"):
                ctx.count("pop_counting_from_the_end")
            guarded(prefix, "pop(%d)" % arg, R[o].pop, arg)
        M[o].delete([i])
        return {o}
    if kind == "translate":
        o = op["obj"] % len(R)
        guarded(prefix, "translate", R[o].translate, np.array(op["delta"], float))
        M[o].translate(op["delta"])
        return {o}
    if kind == "extend":
        o = op["obj"] % len(R)
        j = op["other"] % len(R)
        mode = op.get("mode", "default")
        # growth bound: repeated extension of an object by itself doubles it every time; beyond a few thousand atoms/terms a single
        # extension takes minutes (long chains built on purpose - the 1100-2600 atom hosts of C10/C11 - are extended by small fragments only)
        reps_ = op.get("repeat", 2) if mode == "repeat" else 1
        nterms_o = sum(len(M[o].terms[kk]) for kk in KINDS)
        nterms_j = sum(len(M[j].terms[kk]) for kk in KINDS)
        if (len(M[o].atoms) + reps_ * len(M[j].atoms) > 3000 and len(M[j].atoms) > 50) or nterms_o * max(1, nterms_j) * reps_ > 4_000_000:
            ctx.count("extend_skipped_growth_bound")
            return set()
        ns, no = len(M[o].atoms), len(M[j].atoms)
        other_r, other_m = R[j], M[j]
        if j == o:
            other_r, other_m = guarded(prefix, "copy", R[j].copy), M[j].clone()
        imap = {}
        if mode == "map_all" and ns and no:
            imap = {i: i for i in range(min(ns, no))}
            ctx.count("overlay_extensions")
        if mode == "map" and ns and no:
            k = max(1, min(ns, no, int(op.get("map_frac", 0.5) * min(ns, no)) or 1))
            oi = pick_indices(op["map_other"][:k], no)
            si = pick_indices(op["map_self"][:k], ns)
            imap = dict(zip(oi, si[:len(oi)]))
        if len(M[o].atoms) == 0:
            ctx.count("extend_of_empty_object")
        for kk in KINDS:
            if M[o].tabled[kk] and not M[o].terms[kk] and other_m.terms[kk]:
                ctx.count("emptied_kind_then_extended")
        if mode == "repeat":
            offs = guarded(prefix, "extend_types", R[o].extend_types, other_r)
            ns_tok = ("rep", id(op), ctx.log.n)
            for rep in range(op.get("repeat", 2)):
                frag_r = guarded(prefix, "copy", other_r.copy)
                frag_m = other_m.clone()
                d = [1.5 * (rep + 1) * op.get("shift_scale", 1.0), 0.0, 0.25 * rep * op.get("shift_scale", 1.0)]
                frag_r.translate(np.array(d))
                frag_m.translate(d)
                guarded(prefix, "extend offsets=extend_types() repeat %d" % rep, R[o].extend, frag_r, offsets=offs)
                M[o].extend(frag_m, token_ns=ns_tok)
            ctx.count("repeated_extension")
        else:
            kw = {}
            if imap:
                kw["structure_index_map"] = {int(a): int(b) for a, b in imap.items()}
            guarded(prefix, "extend map=%s" % (imap,), R[o].extend, other_r, **kw)
            M[o].extend(other_m, index_map=dict(imap))
            if imap and op.get("reuse_map") and j != o:
                # the caller re-uses its dict object for a second extension with a fresh copy of the fragment
                frag_r = guarded(prefix, "copy", other_r.copy)
                guarded(prefix, "extend again with the same map object %s" % (imap,), R[o].extend, frag_r, **kw)
                M[o].extend(other_m.clone(), index_map=dict(imap))
                ctx.count("map_object_reused")
        return {o}
    if kind == "replicate":
        s = op["src"] % len(R)
        if M[s].cell is None or len(M[s].atoms) == 0 or len(M[s].atoms) * int(np.prod(op["dims"])) > 120:
            return set()
        dims = tuple(int(d) for d in op["dims"])
        r = guarded(prefix, "replicate%s" % (dims,), R[s].replicate, dims)
        # no image order is prescribed: read the order of the image blocks off the result (if it has block structure)
        order = None
        try:
            n0 = len(M[s].atoms)
            rp = np.asarray(r.positions, float).reshape(-1, 3)
            if len(rp) == n0 * int(np.prod(dims)):
                p0 = np.array([a.pos for a in M[s].atoms])
                inv = np.linalg.inv(np.array(M[s].cell, float))
                order = []
                for b in range(int(np.prod(dims))):
                    off = rp[b * n0:(b + 1) * n0] - p0
                    ijk = np.round(off[0] @ inv)
                    if np.abs(off - ijk @ np.array(M[s].cell, float)).max() > 1e-6:
                        order = None
                        break
                    order.append(tuple(int(x) for x in ijk))
                if order is not None and sorted(order) != sorted((i, j, k) for i in range(dims[0]) for j in range(dims[1]) for k in range(dims[2])):
                    order = None
        except Exception:
            order = None
        i = pool.add(r, M[s].replicate(dims, image_order=order))
        pool._replicate_blocks = order is not None
        pool._replicated = i
        return {i}
    if kind == "assign":
        # plain attribute assignment, as callers (and the command line) do: new type labels / new charges
        o = op["obj"] % len(R)
        n = len(M[o].atoms)
        if op["what"] == "labels":
            suffix = op["suffix"]
            labs = [str(l) + suffix for l in R[o].atom_type_labels]
            R[o].atom_type_labels = labs if op.get("as_list", True) else np.array(labs)
            for a in M[o].atoms:
                a.label = a.label + suffix
        elif n:
            vals = [round(float(v), 4) for v in (op["values"] * (n // len(op["values"]) + 1))[:n]]
            if op["what"] == "charges":
                R[o].charges = np.array(vals)
            else:
                for i, v in enumerate(vals):
                    R[o].charges[i] = v
            for a, v in zip(M[o].atoms, vals):
                a.charge = float(v)
        return {o}
    if kind == "replace":
        return _op_replace(pool, op, ctx, prefix)
    raise HarnessError("unknown op %r" % (op,))


def _op_replace(pool, op, ctx, prefix):
    """replace_pattern_in_structure inside a history: the search pattern is a rigidly moved copy of 1-3 atoms of the object
    itself (so it occurs at least once), the replacement re-uses the first pattern atoms' places and carries its own
    types/terms; the result is judged by the reference model exactly as in C06."""
    from . import replcheck, findcheck
    from .props import c06
    R, M = pool.real, pool.model
    s = op["src"] % len(R)
    m = M[s]
    n = len(m.atoms)
    if m.cell is None or n < 2 or n > 40:
        return set()
    cell = np.array(m.cell, float)
    pos = np.array([a.pos for a in m.atoms]).reshape(-1, 3)
    f = pos @ np.linalg.inv(cell)
    if f.min() < 0 or f.max() >= 1:
        ctx.count("replace_skipped_atoms_outside_cell")
        return set()
    if len({tuple(np.round(p, 6)) for p in pos}) != n:
        ctx.count("replace_skipped_coincident_atoms")
        return set()
    idx = pick_indices(op["picks"], n)[:3]
    # keep the pattern compact: atoms within 3 A (minimum image not needed: they are taken as stored)
    idx = [idx[0]] + [i for i in idx[1:] if np.linalg.norm(pos[i] - pos[idx[0]]) < 3.0]
    P0 = pos[idx]
    D = geom.diameter(P0)
    atol = 0.05
    if not (geom.perp_widths(cell) > D + 2 * atol).all():
        ctx.count("replace_skipped_cell_too_small")
        return set()
    Rm_ = np.array(op["R"], float)
    P = (P0 - P0[0]) @ Rm_.T + np.array(op["t"], float)
    pel = [m.atoms[i].el for i in idx]
    ff = copy.deepcopy(op["ff"])
    nr = len(ff["positions"])
    rp = []
    for j in range(nr):
        if j < len(idx) and not op.get("disjoint"):
            rp.append(P[j].tolist())
        else:
            rp.append((P[0] + (np.array(op["offsets"][j % len(op["offsets"])], float) @ Rm_.T)).tolist())
    ff["positions"] = rp
    from mofun import Atoms
    search = Atoms(elements=pel, positions=P)
    if op.get("empty"):
        # replacing by nothing = deleting every atom of every selected occurrence, once - also where occurrences share atoms
        sp = {"cell": cell.tolist(), "pattern": {"elements": pel, "positions": P.tolist()}, "replace": {"elements": [], "positions": []},
              "fraction": op.get("fraction", 1.0), "replace_all": False, "atol": atol, "hints": None}
        run = replcheck.run_replace(ctx, R[s], search, Atoms(), sp, op.get("script") or {"choice": {"kind": "first"}, "sample": {"kind": "first"}, "seed": 1})
        if run.exc is not None:
            raise Violation("raises:%s" % type(run.exc).__name__, "replacing by an empty pattern inside a history: %s" % run.exc, site="replace")
        if run.found is None or len(run.selected) != run.reported:
            return set()
        gone = sorted(set(i for k in run.selected for i in run.found[0][k]))
        exp = m.clone()
        exp.delete(gone)
        refmodel.structural_invariants(run.result, "replace by nothing (history)")
        if len(exp.atoms) == 0:
            ctx.count("all_atoms_deleted")
        ctx.count("history_empty_replacements", run.reported)
        if len(gone) < sum(len(run.found[0][k]) for k in run.selected):
            ctx.count("history_empty_replacements_sharing_atoms")
        return {pool.add(run.result, exp)}
    replace = guarded(prefix, "constructor", build_real, ff)
    Rmod = RefAtoms.from_spec(ff)
    pattern = {"elements": pel, "positions": P.tolist()}
    rep_pat = {"elements": [a.el for a in Rmod.atoms], "positions": [list(a.pos) for a in Rmod.atoms]}
    smap = replcheck.shared_map(pattern, rep_pat)
    sp = {"cell": cell.tolist(), "pattern": pattern, "replace": rep_pat, "fraction": op.get("fraction", 1.0), "replace_all": False,
          "atol": atol, "hints": None, "positions": pos.tolist(), "elements": [a.el for a in m.atoms]}
    run = replcheck.run_replace(ctx, R[s], search, replace, sp, op.get("script") or {"choice": {"kind": "first"}, "sample": {"kind": "first"}, "seed": 1})
    if run.exc is not None:
        if type(run.exc).__name__ == "AtomsShouldNotBeDeletedTwice":
            ctx.count("replace_overlap_error")
            return set()
        raise Violation("raises:%s" % type(run.exc).__name__, "replace inside a history: %s" % run.exc, site="replace")
    if run.found is None or len(run.selected) != run.reported:
        return set()
    sel = [run.found[0][i] for i in run.selected]
    retained = set(smap.values())
    Dm = [set(i for a, i in enumerate(t) if a not in retained) for t in sel]
    if Dm and sum(len(d) for d in Dm) != len(set().union(*Dm)):
        ctx.count("replace_overlapping_selection")
        return set()
    res = run.result
    where = "replace (history)"
    refmodel.structural_invariants(res, where)
    E, stats, removed = c06.check_replace_result(ctx, m, Rmod, sp, run, res, smap, False, prefix, where)
    ctx.count("history_replacements", run.reported)
    i = pool.add(res, refmodel.abstract(res))
    return {i}


def gen_ops(rng, nobj, nops, cfg, weights=None):
    ops = []
    w = weights or {"copy": 1, "subset": 1, "delete": 4, "delete_touching": 2, "delete_all": 1, "pop": 1, "translate": 1,
                    "extend": 6, "replicate": 1, "restart": 2}
    names = list(w)
    cur = nobj
    for _ in range(nops):
        k = rng.choices(names, [w[x] for x in names])[0]
        if k == "copy":
            ops.append({"op": "copy", "src": rng.randrange(cur)})
            cur += 1
        elif k == "subset":
            ops.append({"op": "subset", "src": rng.randrange(cur), "picks": [rng.random() for _ in range(rng.randint(1, 5))],
                        "container": rng.choice(["list", "ndarray", "tuple"])})
            cur += 1
        elif k == "delete":
            ops.append({"op": "delete", "obj": rng.randrange(cur), "picks": [rng.random() for _ in range(rng.randint(1, 4))],
                        "container": rng.choice(["list", "list", "ndarray", "tuple", "np.int64"])})
        elif k == "delete_touching":
            ops.append({"op": "delete_touching", "obj": rng.randrange(cur), "kind": rng.choice(KINDS), "container": "list"})
        elif k == "delete_all":
            ops.append({"op": "delete_all", "obj": rng.randrange(cur), "reverse": rng.random() < 0.5, "container": "list"})
        elif k == "pop":
            ops.append({"op": "pop", "obj": rng.randrange(cur), "pos": None if rng.random() < 0.5 else rng.random(), "negative": rng.random() < 0.4})
        elif k == "translate":
            ops.append({"op": "translate", "obj": rng.randrange(cur), "delta": [rng.uniform(-3, 3) for _ in range(3)] if rng.random() < 0.85 else
                        [rng.choice([0.0, -150.25, 1234.5, -99.9999995, 999.9999996, -12345.678901]) for _ in range(3)]})
        elif k == "extend":
            mode = rng.choice(["default", "default", "map", "map", "repeat"])
            ops.append({"op": "extend", "obj": rng.randrange(cur), "other": rng.randrange(cur), "mode": mode,
                        "map_frac": rng.random(), "map_other": [rng.random() for _ in range(6)], "map_self": [rng.random() for _ in range(6)],
                        "repeat": rng.randint(2, 3), "reuse_map": rng.random() < 0.3})
        elif k == "replicate":
            ops.append({"op": "replicate", "src": rng.randrange(cur), "dims": rng.choice([[1, 1, 1], [2, 1, 1], [1, 2, 1], [1, 1, 2], [2, 1, 3], [1, 3, 2], [2, 2, 1]])})
            cur += 1
        elif k == "replace":
            nr = rng.randint(1, 3)
            ff = gen_fragment(rng, cfg, "rp%d" % len(ops), atom_elements=[rng.choice(SAFE_ELEMENTS) for _ in range(nr)],
                              positions=[[0.0, 0.0, float(i)] for i in range(nr)], label_scheme=None)
            ops.append({"op": "replace", "src": rng.randrange(cur), "picks": [rng.random() for _ in range(3)], "R": geom.random_rotation(rng).tolist(),
                        "t": [rng.uniform(-5, 5) for _ in range(3)], "ff": ff, "fraction": rng.choice([1.0, 1.0, 0.5]),
                        "offsets": [[rng.uniform(-1.5, 1.5) for _ in range(3)] for _ in range(3)], "disjoint": rng.random() < 0.2, "empty": rng.random() < 0.2,
                        "script": {"choice": {"kind": rng.choice(["first", "last", "mt"])}, "sample": {"kind": rng.choice(["first", "last", "mt"])}, "seed": rng.getrandbits(20)}})
            cur += 1
        elif k == "assign":
            ops.append({"op": "assign", "obj": rng.randrange(cur), "what": rng.choice(["labels", "labels", "charges", "charges_inplace"]),
                        "suffix": "_v%d" % rng.randint(1, 9), "as_list": rng.random() < 0.7, "values": [round(rng.uniform(-2, 2), 4) for _ in range(5)]})
        elif k == "restart":
            ops.append({"op": "restart", "obj": rng.randrange(cur), "style": rng.choice(["full", "full", "atomic"]),
                        "via": rng.choice(["path", "file", "save_lmpdat"]), "fault": None, "keep": rng.random() < 0.5,
                        "pathkind": rng.choice(["std", "std", "odd_ext", "pathlib", "dotted"]), "same_handle": rng.random() < 0.3})
    return ops


def build_pool(spec, ctx, prefix):
    from mofun import Atoms
    pool = Pool(ctx, prefix)
    for o in spec["objects"]:
        try:
            if o.get("empty"):
                r, m = Atoms(), RefAtoms()
            else:
                r, m = build_real(o), RefAtoms.from_spec(o)
        except Exception as e:
            raise Violation("raises:%s" % type(e).__name__, "constructing a consistent object (%s idiom): %s" % (o.get("idiom", "empty"), e), site="constructor")
        pool.add(r, m)
    pool.check_all("construct")
    return pool


def run_history(pool, ops, ctx, prefix, on_restart=None):
    """Apply ops one by one; after every step compare involved objects with the model, all others bit-identical."""
    changed = 0
    for k, op in enumerate(ops):
        snaps = pool.snapshots()
        if op["op"] == "restart":
            touched = on_restart(pool, op, k) if on_restart else set()
        else:
            touched = apply_op(pool, op, ctx, prefix)
        if touched:
            changed += 1
        cmp_kw = {}
        if op["op"] == "replicate" and touched:
            cmp_kw = dict(order="exact" if getattr(pool, "_replicate_blocks", False) else "any", pos_tol=1e-9, cell_tol=1e-9)
        pool.check_all("%s (step %d)" % (op["op"], k), touched=touched, snapshots=snaps, **cmp_kw)
    return changed


def shrink_history(spec):
    ops = spec["ops"]
    n = len(ops)
    for cut in (n // 2, n - 1):
        if 0 < cut < n:
            s = copy.deepcopy(spec)
            s["ops"] = ops[:cut]
            yield s
    for i in range(n - 1, -1, -1):
        s = copy.deepcopy(spec)
        del s["ops"][i]
        yield s
    for i, op in enumerate(ops):
        if op.get("fault"):
            s = copy.deepcopy(spec)
            s["ops"][i]["fault"] = None
            yield s
        if op["op"] == "delete" and len(op["picks"]) > 1:
            s = copy.deepcopy(spec)
            s["ops"][i]["picks"] = op["picks"][:-1]
            yield s
        if op.get("container") not in (None, "list"):
            s = copy.deepcopy(spec)
            s["ops"][i]["container"] = "list"
            yield s
    for i, o in enumerate(spec["objects"]):
        if o.get("empty"):
            continue
        for k in KINDS:
            if o[PLURAL[k]]:
                s = copy.deepcopy(spec)
                so = s["objects"][i]
                so[PLURAL[k]], so["%s_types" % k], so["%s_type_coeffs" % k] = [], [], []
                so["extra_%s_labels" % k], so["extra_%s_fields" % k] = [], []
                yield s
        if o.get("extra_atom_labels"):
            s = copy.deepcopy(spec)
            s["objects"][i]["extra_atom_labels"], s["objects"][i]["extra_atom_fields"] = [], []
            yield s
        if o.get("container") != "list":
            s = copy.deepcopy(spec)
            s["objects"][i]["container"] = "list"
            yield s


def gen_long_chain(rng, cfg, natoms, cell=None):
    """A chain of `natoms` atoms with a bond between neighbours (and, if the world has them, an angle on every triple): more
    than a thousand terms of one kind in one object - counts that small structures never reach."""
    o = gen_fragment(rng, cfg, "chain", natoms=natoms, cell=cell, idiom="explicit")
    for k in KINDS:
        o[PLURAL[k]], o["%s_types" % k], o["%s_type_coeffs" % k] = [], [], []
        o["extra_%s_labels" % k], o["extra_%s_fields" % k] = [], []
    kinds = [("bond", 2)] + ([("angle", 3)] if "angle" in cfg["kinds"] else [])
    for k, ar in kinds:
        o[PLURAL[k]] = [list(range(i, i + ar)) if rng.random() < 0.7 else list(range(i, i + ar))[::-1] for i in range(natoms - ar + 1)]
        nt = 2
        o["%s_types" % k] = [i % nt for i in range(len(o[PLURAL[k]]))]
        o["%s_type_coeffs" % k] = [gen_coeff(rng, "ch%s%d" % (k[0], i)) for i in range(nt)] if cfg["tabled"][k] else []
    return o


def gen_world(rng, nobj=(2, 4), nops=(0, 5), weights=None, restartable=True, cell_prob=0.85, max_atoms=10, empty_prob=0.05, overlay=0.0):
    cfg = gen_cfg(rng, restartable=restartable)
    width = rng.uniform(6, 14)
    cell = geom.make_cell(rng, cfg["cell_family"], width, [], roomy=(1.0, 1.4)).tolist() if rng.random() < cell_prob else None
    n = rng.randint(*nobj)
    els = rng.sample(SAFE_ELEMENTS, rng.randint(2, 5))
    objs = []
    for i in range(n):
        if rng.random() < empty_prob:
            objs.append({"name": "o%d" % i, "empty": True})
        else:
            objs.append(gen_fragment(rng, cfg, "o%d" % i, natoms=rng.randint(1, max_atoms), cell=cell if rng.random() < 0.9 else None, elements=els))
    ops = gen_ops(rng, n, rng.randint(*nops), cfg, weights=weights)
    if overlay and not objs[0].get("empty") and rng.random() < overlay:
        # an overlay of object 0: the same atoms, terms re-defined on the same atom tuples (forwards, backwards, or in a
        # non-reversed permutation = a different term) with its own types/coefficients; extended with the full identity map
        base = objs[0]
        ov = gen_fragment(rng, cfg, "ov", natoms=len(base["positions"]), cell=base.get("cell"), elements=els)
        ov["positions"] = copy.deepcopy(base["positions"])
        for k in KINDS:
            tuples = []
            for tup in base[PLURAL[k]]:
                r = rng.random()
                if r < 0.3:
                    tuples.append(list(tup))
                elif r < 0.6:
                    tuples.append(list(tup)[::-1])
                elif r < 0.75:
                    p = list(tup)
                    rng.shuffle(p)
                    tuples.append(p)
            if tuples:
                nt = rng.randint(1, 2)
                ov[PLURAL[k]] = tuples
                ov["%s_types" % k] = [rng.randrange(nt) for _ in tuples]
                ov["%s_type_coeffs" % k] = [gen_coeff(rng, "%sov%d" % (k[0], i)) for i in range(nt)] if cfg["tabled"][k] else []
                use = [l for l in cfg["xlabels"][k] if rng.random() < 0.7]
                ov["extra_%s_labels" % k] = use
                ov["extra_%s_fields" % k] = [["%sov%d_%d" % (k[0], i, j) for j in range(len(use))] for i in range(len(tuples))] if use else []
        objs.append(ov)
        ops.insert(rng.randint(0, len(ops)), {"op": "extend", "obj": 0, "other": len(objs) - 1, "mode": "map_all"})
    return {"seed": rng.getrandbits(31), "cfg": cfg, "objects": objs, "ops": ops}


def add_shifted_duplicate(fs, i, shift):
    """Append a copy of atom i (same type, charge, group, extra fields) displaced by `shift` (e.g. exactly one cell vector:
    a boundary atom listed on both opposite faces, as some CIFs do)."""
    fs["positions"].append((np.array(fs["positions"][i], float) + np.array(shift, float)).tolist())
    fs["atom_types"].append(fs["atom_types"][i])
    for key in ("charges", "groups", "elements_arg"):
        if fs.get(key):
            fs[key].append(fs[key][i])
    if fs.get("extra_atom_fields"):
        fs["extra_atom_fields"].append(list(fs["extra_atom_fields"][i]))
    return fs
