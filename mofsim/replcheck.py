"""Replacement worlds: generation, running the real replace under the seams, and atom accounting (C04, C05, C07, C08)."""
import copy
import math

import numpy as np

from . import findcheck, geom, seams, worlds
from .core import Violation, OutOfDomain, HarnessError


# ---------------------------------------------------------------------------------------------------------------
# generation

def gen_replacement(rng, els, P, mode=None):
    """Replacement pattern in the frame of the search pattern.  Returns dict(elements, positions, charges, groups)."""
    n = len(P)
    mode = mode or rng.choice(["empty", "smaller", "equal", "equal_subst", "larger", "larger", "disjoint", "identity", "relaxed"])
    P = np.asarray(P, float)
    rel, rpos = [], []
    if mode == "empty":
        pass
    elif mode == "identity":
        rel, rpos = list(els), [list(p) for p in P]
    else:
        keep = list(range(n))
        if mode == "smaller" and n > 1:
            keep = sorted(rng.sample(range(n), rng.randint(1, n - 1)))
        elif mode == "disjoint":
            keep = []
        for i in keep:
            rel.append(els[i])
            rpos.append(list(P[i]))
        if mode == "relaxed" and rel:
            # a slightly relaxed copy: some atoms moved by 0.001-0.09 A (NOT the same coordinates: they are replaced)
            for j in rng.sample(range(len(rel)), rng.randint(1, len(rel))):
                d = np.array([rng.gauss(0, 1) for _ in range(3)])
                rpos[j] = list(np.array(rpos[j]) + d / np.linalg.norm(d) * 10 ** rng.uniform(-4.7, -1.05))
        if mode == "equal_subst" and rel:
            j = rng.randrange(len(rel))
            rel[j] = rng.choice([e for e in geom.ELEMENT_POOL[:8] if e != rel[j]])
        if mode in ("larger", "disjoint") or (mode == "smaller" and rng.random() < 0.3):
            c = P.mean(axis=0)
            rad = geom.diameter(P) / 2 + 1.2
            for _ in range(rng.randint(1, 4)):
                for attempt in range(40):
                    d = np.array([rng.gauss(0, 1) for _ in range(3)])
                    x = c + d / np.linalg.norm(d) * rad * rng.random() ** (1 / 3)
                    if all(np.linalg.norm(x - np.array(q)) > 0.7 for q in rpos) and \
                            (mode != "disjoint" or all(np.linalg.norm(x - p) > 0.3 for p in P)):
                        rpos.append(list(x))
                        rel.append(rng.choice(geom.ELEMENT_POOL[:8]))
                        break
    if rel and mode not in ("identity",) and rng.random() < 0.25:
        # shared atoms are 'the same coordinates' up to round-off: perturb them far below the 1e-5 identity tolerance, and
        # turn exact zeros into negative zeros (what reading "-0.000" from a file gives)
        for j in range(len(rpos)):
            rpos[j] = [(-0.0 if (x == 0.0 and rng.random() < 0.5) else x + rng.uniform(-1e-12, 1e-12)) for x in rpos[j]]
    order = list(range(len(rel)))
    rng.shuffle(order)
    rel = [rel[i] for i in order]
    rpos = [rpos[i] for i in order]
    out = {"elements": rel, "positions": rpos,
           "charges": [round(rng.uniform(-1, 1), 4) for _ in rel] if rng.random() < 0.7 else None,
           "groups": [rng.randint(0, 3) for _ in rel] if rng.random() < 0.5 else None,
           "mode": mode}
    if rel and rng.random() < 0.2:
        # a pattern loaded from a file brings a box of its own (unrelated to the structure's cell)
        s = rng.uniform(3.0, 9.0)
        out["cell"] = [[s, 0.0, 0.0], [0.0, s * rng.uniform(0.8, 1.3), 0.0], [0.0, 0.0, s * rng.uniform(0.8, 1.3)]]
    if rel and rng.random() < 0.2:
        out["extra_atom_labels"] = ["_atom_site_x_note"]
        out["extra_atom_fields"] = [["n%d" % i] for i in range(len(rel))]
    if rel and rng.random() < 0.3:
        # a parameterised pattern: force-field type labels that differ from the element symbols (the search pattern, built from
        # elements, labels the same atoms by element - "common to both patterns" is a matter of element and place, not of label)
        suffix = {e: rng.choice(["_3", "_R", "1", "_x2", "_" + e.lower()]) for e in sorted(set(rel))}
        out["labels"] = [e + suffix[e] + ("b" if rng.random() < 0.2 else "") for e in rel]
    return out


def add_metadata(rng, spec):
    """Bystander metadata: explicit atom types with labels != elements, masses, charges, groups."""
    from mofun.atomic_masses import ATOMIC_MASSES
    els = spec["elements"]
    type_of = {}
    types, t_el, t_lab, t_mass = [], [], [], []
    nvar = rng.choice([1, 2, 2])
    for e in els:
        v = rng.randrange(nvar)
        key = (e, v)
        if key not in type_of:
            type_of[key] = len(t_el)
            t_el.append(e)
            t_lab.append("%s_%d" % (e, v + 1))
            t_mass.append(round(ATOMIC_MASSES[e] + 0.001 * v, 4))
        types.append(type_of[key])
    # an unused trailing type is legal (a subset keeps all tables)
    if rng.random() < 0.2:
        t_el.append("Ar")
        t_lab.append("Ar_x")
        t_mass.append(39.948)
    spec["atom_types"] = types
    spec["atom_type_elements"] = t_el
    spec["atom_type_labels"] = t_lab
    spec["atom_type_masses"] = t_mass
    spec["charges"] = [round(rng.uniform(-1.5, 1.5), 4) for _ in els]
    spec["groups"] = [rng.randint(0, 4) for _ in els]
    return spec


def gen_replace_world(rng, **kw):
    kw.setdefault("moderate_noise", True)
    spec = worlds.gen_find_world(rng, max_atoms=kw.pop("max_atoms", 40), min_copies=kw.pop("min_copies", 1), **kw)
    add_metadata(rng, spec)
    P = np.array(spec["pattern"]["positions"], float).reshape(-1, 3)
    spec["replace"] = gen_replacement(rng, spec["pattern"]["elements"], P)
    spec["fraction"] = rng.choice([1.0, 1.0, 1.0, 0.0, 0.5, 0.25, 0.75, 1 / 3, 2 / 3, round(rng.random(), 3), 0.999, 0.001])
    spec["replace_all"] = rng.random() < 0.25
    return spec


def add_outside_bystanders(spec, unwrap):
    """A copy of the world with extra bystander atoms of an element no pattern contains (Kr), STORED outside the cell box - a
    legal object (unwrapped coordinates).  Returns (new spec, {atom index: lattice shift})."""
    import copy
    cell = np.array(spec["cell"], float)
    sp2 = copy.deepcopy(spec)
    moved = {}
    sp2["atom_type_elements"] = list(spec["atom_type_elements"]) + ["Kr"]
    sp2["atom_type_labels"] = list(spec["atom_type_labels"]) + ["Kr_out"]
    sp2["atom_type_masses"] = list(spec["atom_type_masses"]) + [83.798]
    for k, x in enumerate(unwrap["picks"]):
        sh = np.array(unwrap["shifts"][k % 4], float)
        if not sh.any():
            sh = np.array([0.0, -1.0, 1.0])
        f = np.array([x, (x * 7.3) % 1.0, (x * 13.7) % 1.0])
        moved[len(sp2["elements"])] = sh
        sp2["elements"].append("Kr")
        sp2["positions"].append(((f + sh) @ cell).tolist())
        sp2["atom_types"].append(len(sp2["atom_type_elements"]) - 1)
        sp2["charges"].append(0.25 * (k + 1))
        sp2["groups"].append(k)
    return sp2, moved


def build_structure(spec):
    from mofun import Atoms
    if "atom_types" not in spec:
        return worlds.build_structure(spec)
    kw = dict(atom_types=list(spec["atom_types"]), atom_type_elements=list(spec["atom_type_elements"]),
              atom_type_labels=list(spec["atom_type_labels"]), atom_type_masses=list(spec["atom_type_masses"]),
              positions=np.array(spec["positions"], float).reshape(-1, 3), cell=np.array(spec["cell"], float),
              charges=list(spec["charges"]), groups=list(spec["groups"]))
    for key in ("bonds", "bond_types", "angles", "angle_types", "dihedrals", "dihedral_types", "impropers", "improper_types",
                "pair_coeffs", "bond_type_coeffs", "angle_type_coeffs", "dihedral_type_coeffs", "improper_type_coeffs"):
        if spec.get(key):
            kw[key] = list(spec[key])
    return Atoms(**kw)


def add_random_terms(rng, spec, tables=None):
    """Pre-existing typed terms inside, outside and across the planted regions (random graph on near neighbours)."""
    N = len(spec["elements"])
    if N < 2:
        return spec
    pos = np.array(spec["positions"], float).reshape(-1, 3)
    cell = np.array(spec["cell"], float)
    bonds = set()
    for i in range(N):
        for _ in range(2):
            j = rng.randrange(N)
            if j != i and geom.min_image_dist(pos[i], pos[j], cell) < 2.6 and rng.random() < 0.8:
                bonds.add((min(i, j), max(i, j)))
    for _ in range(rng.randint(0, 3)):
        i, j = rng.sample(range(N), 2)
        bonds.add((min(i, j), max(i, j)))
    bonds = [list(b) if rng.random() < 0.5 else [b[1], b[0]] for b in sorted(bonds)]
    nbr = {}
    for a, b in bonds:
        nbr.setdefault(a, []).append(b)
        nbr.setdefault(b, []).append(a)
    angles, dihedrals, impropers = [], [], []
    for j, ns in sorted(nbr.items()):
        for x in range(len(ns)):
            for y in range(x + 1, len(ns)):
                if rng.random() < 0.5 and len(angles) < 30:
                    angles.append([ns[x], j, ns[y]])
        if len(ns) >= 3 and rng.random() < 0.4 and len(impropers) < 6:
            a, b, c = rng.sample(ns, 3)
            impropers.append([j, a, b, c])
    for a, b in bonds:
        for x in nbr.get(a, []):
            for y in nbr.get(b, []):
                if x != b and y != a and x != y and rng.random() < 0.3 and len(dihedrals) < 20:
                    dihedrals.append([x, a, b, y])
    tables = rng.random() < 0.5 if tables is None else tables
    for key, tkey, ckey, lst in (("bonds", "bond_types", "bond_type_coeffs", bonds), ("angles", "angle_types", "angle_type_coeffs", angles),
                                 ("dihedrals", "dihedral_types", "dihedral_type_coeffs", dihedrals),
                                 ("impropers", "improper_types", "improper_type_coeffs", impropers)):
        spec[key] = lst
        nt = rng.randint(1, 3)
        spec[tkey] = [rng.randrange(nt) for _ in lst]
        if tables and lst:
            spec[ckey] = ["%s %.3f %.3f # s%s%d" % (rng.choice(["harmonic", "fourier", "cosine/periodic"]), rng.uniform(1, 500), rng.uniform(0.5, 3), key[0], t)
                          for t in range(nt)]
    return spec


def build_replacement(rep):
    from mofun import Atoms
    if len(rep["elements"]) == 0:
        return Atoms()
    kw = dict(elements=list(rep["elements"]), positions=np.array(rep["positions"], float).reshape(-1, 3))
    if rep.get("labels"):
        from mofun.atomic_masses import ATOMIC_MASSES
        uniq = list(dict.fromkeys(zip(rep["elements"], rep["labels"])))
        kw = dict(atom_types=[uniq.index((e, l)) for e, l in zip(rep["elements"], rep["labels"])], atom_type_elements=[e for e, l in uniq],
                  atom_type_labels=[l for e, l in uniq], atom_type_masses=[ATOMIC_MASSES[e] for e, l in uniq], positions=kw["positions"])
    if rep.get("charges") is not None:
        kw["charges"] = list(rep["charges"])
    if rep.get("groups") is not None:
        kw["groups"] = list(rep["groups"])
    if rep.get("cell") is not None:
        kw["cell"] = np.array(rep["cell"], float)
    if rep.get("extra_atom_labels"):
        kw["extra_atom_labels"] = list(rep["extra_atom_labels"])
        kw["extra_atom_fields"] = [list(r) for r in rep["extra_atom_fields"]]
    return Atoms(**kw)


# ---------------------------------------------------------------------------------------------------------------
# snapshots ("left unmodified")

ARRAY_ATTRS = ["positions", "atom_types", "charges", "groups", "atom_type_masses", "atom_type_elements", "atom_type_labels",
               "bonds", "bond_types", "angles", "angle_types", "dihedrals", "dihedral_types", "impropers", "improper_types",
               "pair_coeffs", "bond_type_coeffs", "angle_type_coeffs", "dihedral_type_coeffs", "improper_type_coeffs",
               "cell", "extra_atom_fields", "extra_bond_fields", "extra_angle_fields", "extra_dihedral_fields",
               "extra_improper_fields", "extra_atom_labels", "extra_bond_labels", "extra_angle_labels",
               "extra_dihedral_labels", "extra_improper_labels"]


def snapshot(a):
    out = {}
    for k in ARRAY_ATTRS:
        v = getattr(a, k, None)
        if v is None:
            out[k] = None
        else:
            try:
                out[k] = np.array(list(v) if not isinstance(v, np.ndarray) else v).tolist()
            except Exception:
                out[k] = repr(v)
    return out


def assert_unmodified(before, obj, what):
    after = snapshot(obj)
    for k in ARRAY_ATTRS:
        if before[k] != after[k]:
            raise Violation("c04:input-modified", "%s.%s changed during replace_pattern_in_structure" % (what, k), site="replace")


# ---------------------------------------------------------------------------------------------------------------
# running the real replace

class ReplaceRun:
    pass


def run_replace(ctx, structure, search, replace, spec, script, fraction=None, replace_all=None, hints="spec", **extra):
    """Calls the real replace_pattern_in_structure with the inner search tapped.  Returns a ReplaceRun."""
    import mofun
    import mofun.mofun as mm
    ctx.rng.reset(script)
    tap = seams.Tap(ctx, mm, "find_pattern_in_structure")
    run = ReplaceRun()
    run.exc = None
    kw = dict(replace_fraction=spec["fraction"] if fraction is None else fraction,
              replace_all=spec["replace_all"] if replace_all is None else replace_all,
              atol=spec["atol"], return_num_matches=True)
    kw.update(findcheck.hint_kwargs(spec.get("hints") if hints == "spec" else hints))
    kw.update(extra)
    ctx.event("op", "replace", len(structure), len(search), len(replace), kw.get("replace_fraction"), kw.get("replace_all"))
    ctx.rng.last_sample = None
    ctx.rng.last_sample_idx, ctx.rng.last_sample_n = None, None
    try:
        res = mofun.replace_pattern_in_structure(structure, search, replace, **kw)
        run.result, run.reported = res
    except Exception as e:
        run.exc = e
        run.result, run.reported = None, None
    finally:
        # remove the tap again (last undo entry is ours)
        undo = ctx._undo.pop()
        undo()
    run.found = None
    for c in tap.calls:
        if "result" in c:
            r = c["result"]
            run.found = ([tuple(int(i) for i in t) for t in r[0]], np.asarray(r[1], float), r[2]) if isinstance(r, tuple) else None
    run.sampled = ctx.rng.last_sample if kw["replace_fraction"] < 1.0 else None
    run.sample_observed = kw["replace_fraction"] >= 1.0 or ctx.rng.last_sample is not None
    if run.found is None and (run.exc is None or type(run.exc).__name__ == "AtomsShouldNotBeDeletedTwice"):
        # the inner search was not observable at the tap (e.g. the code was restructured): reconstruct what it found by
        # running the public search under the same script (per-site decision streams make the tie-breaks identical)
        ctx.count("tap_not_fired")
        run.found_reconstructed = True
        sample_keep = run.sampled
        ctx.rng.reset(script)
        try:
            # same input as the replacement hands to its search: the pattern with its first atom at the origin
            search0 = search.copy()
            search0.translate(-np.array(search0.positions[0], float))
            r = mofun.find_pattern_in_structure(structure, search0, atol=kw["atol"], return_positions_and_quats=True,
                                                **{k: v for k, v in kw.items() if k in ("axisp1_idx", "axisp2_idx", "opoint_idx")})
            run.found = ([tuple(int(i) for i in t) for t in r[0]], np.asarray(r[1], float), r[2])
        except Exception:
            run.found = None
        run.sampled = sample_keep
    if run.found is not None and len(run.found[0]) and getattr(structure, "cell", None) is not None and len(np.asarray(structure.cell)):
        # "the matched atoms" are the atoms AT the matched places: if the index tuples handed to the replacement do not name
        # the atoms whose positions (and rotations) it is handed along with them, the places decide what the oracles expect
        try:
            cell = np.array(structure.cell, float).reshape(3, 3)
            inv = np.linalg.inv(cell)
            sp = np.array(structure.positions, float).reshape(-1, 3)
            fixed, changed = [], False
            for tup, X in zip(run.found[0], np.asarray(run.found[1], float)):
                new = []
                for a, i in enumerate(tup):
                    d = (sp - X[a]) @ inv
                    r = np.abs(d - np.round(d)).max(axis=1)
                    if r[i] < 1e-6:
                        new.append(int(i))
                        continue
                    j = int(np.argmin(r))
                    if r[j] < 1e-6 and (r < 1e-6).sum() == 1:
                        new.append(j)
                        changed = True
                    else:
                        new.append(int(i))
                fixed.append(tuple(new))
            if changed:
                ctx.count("match_indices_inconsistent_with_match_positions")
                run.found = (fixed, run.found[1], run.found[2])
        except Exception:
            pass
    if run.found is not None and run.sampled is not None:
        # the selection is WHICH members of the sampled population were drawn; it can be attributed to matches if the population had
        # one member per match (whatever the members were: match numbers, index tuples, (tuple, positions) pairs ...)
        if ctx.rng.last_sample_n == len(run.found[0]) and ctx.rng.last_sample_idx is not None:
            run.sampled = list(ctx.rng.last_sample_idx)
        elif not all(isinstance(x, (int, np.integer)) for x in run.sampled):
            run.sampled = []
            run.sample_observed = False
    if run.found is not None:
        M = len(run.found[0])
        run.selected = list(range(M)) if run.sampled is None else [int(i) for i in run.sampled]
    else:
        run.selected = None
    run.kw = kw
    return run


def first_round_candidates(structure, pat, atol):
    """How many ordered (atom, atom-image) pairs fit the first two pattern atoms by element and distance: what a distance-driven
    search has to carry through its first round.  Used only to keep chained histories out of unphysically dense states (dozens of
    same-element atoms packed into a cell a few A wide), where one search takes minutes."""
    P = np.array(pat["positions"], float).reshape(-1, 3)
    if len(P) < 2 or getattr(structure, "cell", None) is None:
        return 0
    els = [str(e) for e in structure.elements]
    pos = np.array(structure.positions, float).reshape(-1, 3)
    cell = np.array(structure.cell, float).reshape(3, 3)
    ia = [i for i, e in enumerate(els) if e == pat["elements"][0]]
    ib = [i for i, e in enumerate(els) if e == pat["elements"][1]]
    if not ia or not ib:
        return 0
    d01 = float(np.linalg.norm(P[1] - P[0]))
    offs = np.array([[i, j, k] for i in (-1, 0, 1) for j in (-1, 0, 1) for k in (-1, 0, 1)], float) @ cell
    B = (pos[ib][None, :, :] + offs[:, None, :]).reshape(-1, 3)
    d = np.linalg.norm(pos[ia][:, None, :] - B[None, :, :], axis=2)
    return int((np.abs(d - d01) <= atol).sum())


def shared_map(search_pat, replace_pat):
    """{replace index: search index} of atoms common to both patterns (same element, same coordinates) - computed
    independently of mofun.atoms.find_unchanged_atom_pairs."""
    Ps = np.array(search_pat["positions"], float).reshape(-1, 3)
    Pr = np.array(replace_pat["positions"], float).reshape(-1, 3)
    out = {}
    for i in range(len(Pr)):
        for j in range(len(Ps)):
            if np.linalg.norm(Pr[i] - Ps[j]) < 1e-5 and replace_pat["elements"][i] == search_pat["elements"][j]:
                out[i] = j
                break
    return out


def exact_index(result_pos):
    idx = {}
    for i, p in enumerate(result_pos):
        idx.setdefault((float(p[0]), float(p[1]), float(p[2])), []).append(i)
    return idx


def account(ctx, spec, structure, run, prefix="c04"):
    """Atom accounting of a replace result against the selected matches.  Returns dict with bystander/retained/new
    result indices, or raises Violation."""
    res = run.result
    pos0 = np.array(spec["positions"], float).reshape(-1, 3)
    N = len(pos0)
    found = run.found[0]
    sel = [found[i] for i in run.selected]
    smap = {} if (spec["replace_all"] if "replace_all" not in run.kw else run.kw["replace_all"]) else shared_map(spec["pattern"], spec["replace"])
    nrep = len(spec["replace"]["elements"])
    if nrep == 0:
        smap = {}
    retained_pat_idx = set(smap.values())
    removed, retained = set(), {}
    for m in sel:
        for a, i in enumerate(m):
            if a in retained_pat_idx and nrep > 0:
                retained.setdefault(i, []).append(m)
            else:
                removed.add(i)
    rpos = np.array(res.positions, float).reshape(-1, 3)
    rel = list(res.elements)
    index = exact_index(rpos)
    used = set()
    out = {"bystander": {}, "retained": {}, "new": []}
    stel = list(structure.elements)
    for i in range(N):
        if i in removed:
            continue
        key = (float(pos0[i][0]), float(pos0[i][1]), float(pos0[i][2]))
        cands = [j for j in index.get(key, []) if j not in used and rel[j] == stel[i]]
        if not cands:
            what = "retained (shared) atom" if i in retained else "bystander atom"
            raise Violation("%s:%s-lost-or-moved" % (prefix, "retained" if i in retained else "bystander"),
                            "%s %d (%s at %s) is not in the result at its original position" % (what, i, stel[i], pos0[i].tolist()), site="replace")
        j = cands[0]
        used.add(j)
        (out["retained"] if i in retained else out["bystander"])[i] = j
    out["new"] = [j for j in range(len(rpos)) if j not in used]
    out["removed"] = removed
    out["selected_matches"] = sel
    out["smap"] = smap
    return out


def overlapping(sel):
    seen = set()
    for m in sel:
        for i in m:
            if i in seen:
                return True
        seen.update(m)
    return False


# ---------------------------------------------------------------------------------------------------------------
# placement oracle (C05; also run by C04/C08 on every replaced match)

def _nearest_image(x, target, cell):
    f = geom.frac(np.asarray(x) - np.asarray(target), cell)
    f0 = f - np.round(f)
    best, bd = None, np.inf
    for s in geom.image_offsets(1):
        v = (f0 + s) @ cell
        d = np.linalg.norm(v)
        if d < bd:
            bd, best = d, v
    return np.asarray(target) + best, bd


def placement_oracle(ctx, spec, structure, run, acc, prefix="c05"):
    """Joint rigid-image check per replaced match; returns number of inserted atoms checked."""
    cell = np.array(spec["cell"], float)
    res = run.result
    rpos = np.array(res.positions, float).reshape(-1, 3)
    rel = list(res.elements)
    Ps = np.array(spec["pattern"]["positions"], float).reshape(-1, 3)
    Pr = np.array(spec["replace"]["positions"], float).reshape(-1, 3)
    smap = acc["smap"]
    only = [r for r in range(len(Pr)) if r not in smap]
    new = list(acc["new"])
    # every inserted atom inside the cell
    if new:
        f = geom.frac(rpos[new], cell)
        if f.min() < -1e-7 or f.max() > 1 + 1e-7:
            j = new[int(np.argmax(np.max(np.abs(f - 0.5), axis=1)))]
            raise Violation("%s:inserted-atom-outside-cell" % prefix, "inserted atom %d (%s) has fractional coordinates %s" % (j, rel[j], geom.frac(rpos[j], cell).tolist()), site="replace")
    if not only:
        return 0
    K = geom.amplification_K(Ps, spec["hints"])
    Kj = geom.amplification_K(Ps, spec["hints"], extra=Pr[only])
    eps = max([p["eps"] or 0.0 for p in spec["planted"] if p["kind"] == "copy"] + [0.0])
    reach = float(np.max(np.linalg.norm(np.vstack([Pr, Ps]) - Ps[0], axis=1))) if len(Ps) else 0.0
    checked = 0
    pool = set(new)
    sel_idx = run.selected
    for mi, si in enumerate(sel_idx):
        X = np.asarray(run.found[1][si], float).reshape(-1, 3)     # unwrapped matched positions in pattern order
        # is this match a clean occurrence (within the planted noise)?  accidental matches near the tolerance get the
        # generic tolerance-proportional bound instead
        if len(Ps) > 1:
            _, _, dev0 = geom.kabsch(Ps, X)
            e_m = max(eps, float(dev0.max()))
        else:
            e_m = 0.0
        if e_m * K > spec["atol"]:
            ctx.count("matches_outside_certified_margin")
            continue
        bound = 3.0 * (Kj if math.isfinite(Kj) else K) * e_m * math.sqrt(len(Ps) + len(only)) + 1e-6 * (1.0 + reach)
        # candidate frames: the rotation the search reported for this match (observed at the tap; verified below to be a
        # genuine rigid fit of the matched atoms) and the independent best fit of the search atoms
        frames = []
        try:
            frames.append(("reported", np.asarray(run.found[2][si].as_matrix(), float)))
        except Exception:
            pass
        collinear = len(Ps) < 3 or np.linalg.matrix_rank(Ps - Ps.mean(axis=0), tol=1e-6) < 2
        if len(Ps) > 1 and not collinear:
            frames.append(("kabsch", geom.kabsch(Ps, X)[0]))
        if len(Ps) == 1 and not frames:
            frames.append(("identity", np.eye(3)))
        if not frames:
            ctx.count("frame_not_observable")
            continue
        ok = False
        tried = []
        Y = None
        for name, R in frames:
            t = (X - Ps @ R.T).mean(axis=0)
            dsearch = float(np.linalg.norm(Ps @ R.T + t - X, axis=1).max())
            if dsearch > bound:
                tried.append(dsearch)
                continue
            free = set(pool)
            assign, worst, Ys = [], 0.0, []
            for r in only:
                y = Pr[r] @ R.T + t
                best, bd, by = None, np.inf, None
                for j in free:
                    if rel[j] != spec["replace"]["elements"][r]:
                        continue
                    yi, d = _nearest_image(rpos[j], y, cell)
                    if d < bd:
                        bd, best, by = d, j, yi
                if best is None:
                    worst = np.inf
                    break
                assign.append(best)
                Ys.append(by)
                free.discard(best)
                worst = max(worst, bd)
            tried.append(float(worst))
            if worst <= bound:
                ok = True
                Y = np.array(Ys)
                for j in assign:
                    pool.discard(j)
                break
        if not ok:
            raise Violation("%s:inserted-atoms-not-in-pattern-frame" % prefix,
                            "match %s: inserted atoms are not where the rigid motion of the matched search pattern puts the replacement coordinates (modulo lattice): deviation %.3g > bound %.3g (atol %g, planted noise %.3g)"
                            % (list(run.found[0][si]), min(tried) if tried else float("nan"), bound, spec["atol"], e_m), site="replace")
        checked += len(only)
        # reach probe: did this match need wrapping of an inserted atom?
        if np.abs(Y - rpos[assign]).max() > 1e-6:
            ctx.count("inserted_atoms_needed_wrapping")
    return checked


def multiset_mod_lattice_equal(ela, pa, elb, pb, cell, tol):
    if sorted(ela) != sorted(elb):
        return False, "element multisets differ"
    used = set()
    fb = geom.frac(pb, cell)
    inv = np.linalg.inv(cell)
    for i in range(len(ela)):
        fa = np.asarray(pa[i]) @ inv
        d = fb - fa
        d -= np.round(d)
        dist = np.linalg.norm(d @ cell, axis=1)
        cands = [j for j in np.argsort(dist)[:6] if j not in used and elb[j] == ela[i] and dist[j] <= tol]
        if not cands:
            return False, "atom %d (%s at %s) has no counterpart within %.3g" % (i, ela[i], np.asarray(pa[i]).tolist(), tol)
        used.add(cands[0])
    return True, ""


