"""RefAtoms - the small executable reference model of a mofun.Atoms object, the abstraction function that maps a real
object onto it, and structural invariants computed independently of Atoms.assert_arrays_are_consistent_sizes.

The model has no type ids and no index arithmetic: atoms and terms are python records that carry their resolved type
data (element, label, mass, pair text / coefficient text).  "Type ids keep their meaning" is checked by resolving every
id of the real object through its tables and comparing with the records.
"""
import copy
import itertools

import numpy as np

from .core import Violation, HarnessError

KINDS = ("bond", "angle", "dihedral", "improper")
ARITY = {"bond": 2, "angle": 3, "dihedral": 4, "improper": 4}
PLURAL = {"bond": "bonds", "angle": "angles", "dihedral": "dihedrals", "improper": "impropers"}
XKINDS = ("atom",) + KINDS


class RAtom:
    __slots__ = ("pos", "el", "label", "mass", "charge", "group", "pair", "extras")

    def __init__(self, pos, el, label, mass, charge, group, pair, extras):
        self.pos, self.el, self.label, self.mass = tuple(float(x) for x in pos), str(el), str(label), float(mass)
        self.charge, self.group, self.pair, self.extras = float(charge), int(group), pair, dict(extras)

    def clone(self):
        return RAtom(self.pos, self.el, self.label, self.mass, self.charge, self.group, self.pair, self.extras)


class RTerm:
    __slots__ = ("atoms", "tkey", "extras")

    def __init__(self, atoms, tkey, extras):
        # tkey: ("c", coefficient text) when the kind has a table, ("t", opaque token) otherwise
        self.atoms, self.tkey, self.extras = tuple(int(a) for a in atoms), tkey, dict(extras)

    def clone(self):
        return RTerm(self.atoms, self.tkey, self.extras)


class RefAtoms:
    _gen = itertools.count(1)

    def __init__(self):
        self.atoms = []
        self.terms = {k: [] for k in KINDS}
        self.cell = None
        self.xlabels = {k: [] for k in XKINDS}
        self.tabled = {k: False for k in KINDS}       # does the kind resolve through a coefficient table?
        self.has_pair = False

    # ------------------------------------------------------------------ construction
    @classmethod
    def from_spec(cls, fs):
        """fs: fragment spec (see machine.gen_fragment) - the same data the real constructor receives, resolved."""
        m = cls()
        m.cell = None if fs.get("cell") is None else [list(map(float, r)) for r in fs["cell"]]
        n = len(fs["positions"])
        types = fs["atom_types"]
        for k in XKINDS:
            m.xlabels[k] = list(fs.get("extra_%s_labels" % k, []))
        m.has_pair = bool(fs.get("pair_coeffs"))
        for i in range(n):
            t = types[i]
            ex = {}
            for li, lab in enumerate(m.xlabels["atom"]):
                ex[lab] = str(fs["extra_atom_fields"][i][li])
            m.atoms.append(RAtom(fs["positions"][i], fs["atom_type_elements"][t], fs["atom_type_labels"][t], fs["atom_type_masses"][t],
                                 fs["charges"][i] if fs.get("charges") else 0.0, fs["groups"][i] if fs.get("groups") else 0,
                                 fs["pair_coeffs"][t] if m.has_pair else None, ex))
        gen = next(cls._gen)
        for k in KINDS:
            tuples = fs.get(PLURAL[k], [])
            tt = fs.get("%s_types" % k, [])
            table = fs.get("%s_type_coeffs" % k, [])
            m.tabled[k] = bool(table)
            for j, tup in enumerate(tuples):
                ex = {}
                for li, lab in enumerate(m.xlabels[k]):
                    ex[lab] = str(fs["extra_%s_fields" % k][j][li])
                tkey = ("c", table[tt[j]]) if table else ("t", (gen, int(tt[j])))
                m.terms[k].append(RTerm(tup, tkey, ex))
        return m

    def clone(self):
        m = RefAtoms()
        m.atoms = [a.clone() for a in self.atoms]
        m.terms = {k: [t.clone() for t in v] for k, v in self.terms.items()}
        m.cell = copy.deepcopy(self.cell)
        m.xlabels = {k: list(v) for k, v in self.xlabels.items()}
        m.tabled = dict(self.tabled)
        m.has_pair = self.has_pair
        return m

    # ------------------------------------------------------------------ operations (the sentences of C10-C12 transcribed)
    def delete(self, idxs):
        dead = set(int(i) for i in idxs)
        remap, new = {}, []
        for i, a in enumerate(self.atoms):
            if i not in dead:
                remap[i] = len(new)
                new.append(a)
        self.atoms = new
        for k in KINDS:
            self.terms[k] = [RTerm([remap[a] for a in t.atoms], t.tkey, t.extras) for t in self.terms[k]
                             if not any(a in dead for a in t.atoms)]

    def subset(self, idxs):
        """Atoms.__getitem__: the selected atoms (in the order given) with their type data, charges, groups; no terms."""
        m = RefAtoms()
        m.cell = copy.deepcopy(self.cell)
        for i in idxs:
            a = self.atoms[int(i)].clone()
            a.extras = {}
            m.atoms.append(a)
        return m

    def translate(self, delta):
        d = np.array(delta, float)
        for a in self.atoms:
            a.pos = tuple(float(x) for x in (np.array(a.pos) + d))

    def extend(self, other, index_map=None, token_ns=None):
        """Append `other`.  index_map {other index: self index}: atoms declared identical (not duplicated, adopt other's
        type data and per-atom extra fields, keep own position/charge/group).  token_ns: namespace for the type tokens of
        table-less kinds (same namespace = the same type ids, as with explicit offsets)."""
        index_map = {int(k): int(v) for k, v in (index_map or {}).items()}
        for k in XKINDS:
            for lab in other.xlabels[k]:
                if lab not in self.xlabels[k]:
                    self.xlabels[k].append(lab)
        fresh = ("x", next(RefAtoms._gen))
        conv = {}
        had_atom_extras = len(self.xlabels["atom"]) > 0 and len(self.atoms) > 0
        for oi, a in enumerate(other.atoms):
            if oi in index_map:
                si = index_map[oi]
                tgt = self.atoms[si]
                tgt.el, tgt.label, tgt.mass, tgt.pair = a.el, a.label, a.mass, a.pair
                if had_atom_extras:
                    tgt.extras = dict(a.extras)
                conv[oi] = si
        for oi, a in enumerate(other.atoms):
            if oi not in index_map:
                conv[oi] = len(self.atoms)
                self.atoms.append(a.clone())
        self.has_pair = self.has_pair or other.has_pair
        for k in KINDS:
            if not other.terms[k]:
                continue
            new_terms = []
            for t in other.terms[k]:
                tk = t.tkey
                if tk[0] == "t":
                    # table-less kind: the other's type classes stay distinct from self's (default merge: fresh namespace per
                    # call; explicit offsets: the namespace of the extend_types call they came from)
                    tk = ("t", (token_ns if token_ns is not None else fresh, tk[1]))
                new_terms.append(RTerm([conv[a] for a in t.atoms], tk, t.extras))
            newset = set(t.atoms for t in new_terms) | set(t.atoms[::-1] for t in new_terms)
            self.terms[k] = [t for t in self.terms[k] if t.atoms not in newset] + new_terms
            self.tabled[k] = self.tabled[k] or other.tabled[k]

    def replicate(self, dims, image_order=None):
        m = RefAtoms()
        cell = np.array(self.cell, float)
        m.cell = (cell * np.array(dims, float).reshape(3, 1)).tolist()
        m.xlabels = {k: list(v) for k, v in self.xlabels.items()}
        m.tabled = dict(self.tabled)
        m.has_pair = self.has_pair
        n = len(self.atoms)
        img = 0
        images = image_order or [(i, j, k) for i in range(dims[0]) for j in range(dims[1]) for k in range(dims[2])]
        if sorted(images) != sorted((i, j, k) for i in range(dims[0]) for j in range(dims[1]) for k in range(dims[2])):
            raise HarnessError("image order %r is not a permutation of the images of %r" % (images, dims))
        for (i, j, k) in images:
            if True:
                if True:
                    shift = i * cell[0] + j * cell[1] + k * cell[2]
                    for a in self.atoms:
                        b = a.clone()
                        b.pos = tuple(float(x) for x in (np.array(a.pos) + shift))
                        m.atoms.append(b)
                    for kind in KINDS:
                        for t in self.terms[kind]:
                            m.terms[kind].append(RTerm([a + img * n for a in t.atoms], t.tkey, t.extras))
                    img += 1
        return m


# ---------------------------------------------------------------------------------------------------------------
# abstraction of a real mofun.Atoms

def _tolist(x):
    if x is None:
        return []
    return list(x)


def structural_invariants(a, where=""):
    """Consistency of a real Atoms object, computed independently of its own assertion."""
    def bad(cls, msg):
        raise Violation("c09:%s" % cls, "%s%s" % (msg, (" after " + where) if where else ""), site=where.split(" ")[0] if where else "")
    pos = np.asarray(a.positions)
    n = len(pos)
    if n and (pos.ndim != 2 or pos.shape[1] != 3):
        bad("positions-shape", "positions have shape %s" % (pos.shape,))
    for name in ("atom_types", "charges", "groups"):
        v = np.asarray(getattr(a, name))
        if len(v) != n:
            bad("per-atom-array-length", "%s has %d entries for %d atoms" % (name, len(v), n))
    at = np.asarray(a.atom_types)
    if n:
        if not np.issubdtype(at.dtype, np.integer):
            if not np.all(np.equal(np.mod(at.astype(float), 1), 0)):
                bad("atom-types-not-integral", "atom_types contains non-integers (dtype %s)" % at.dtype)
            bad("atom-types-dtype", "atom_types has dtype %s" % at.dtype)
        ntab = min(len(_tolist(a.atom_type_elements)), len(_tolist(a.atom_type_masses)), len(_tolist(a.atom_type_labels)))
        if at.min() < 0 or at.max() >= ntab:
            bad("atom-type-without-data", "atom type id %d in use, type tables have %d entries" % (int(at.max()), ntab))
        pc = _tolist(a.pair_coeffs)
        if len(pc) and at.max() >= len(pc):
            bad("atom-type-without-pair-coeffs", "atom type id %d in use, pair_coeffs has %d entries" % (int(at.max()), len(pc)))
    xf = np.asarray(a.extra_atom_fields)
    if xf.ndim != 2 or xf.shape[0] != n or xf.shape[1] != len(a.extra_atom_labels):
        bad("extra-atom-fields-shape", "extra_atom_fields has shape %s for %d atoms and %d labels" % (xf.shape, n, len(a.extra_atom_labels)))
    for k in KINDS:
        tup = np.asarray(getattr(a, PLURAL[k]))
        typ = np.asarray(getattr(a, "%s_types" % k))
        m = len(tup)
        if len(typ) != m:
            bad("term-type-length", "%d %s but %d %s_types" % (m, PLURAL[k], len(typ), k))
        if m:
            if tup.ndim != 2 or tup.shape[1] != ARITY[k]:
                bad("term-shape", "%s has shape %s" % (PLURAL[k], tup.shape))
            if not np.issubdtype(tup.dtype, np.integer) or not np.issubdtype(typ.dtype, np.integer):
                bad("term-dtype", "%s / %s_types have dtypes %s / %s" % (PLURAL[k], k, tup.dtype, typ.dtype))
            if tup.min() < 0 or tup.max() >= n:
                bad("term-refers-to-missing-atom", "%s refers to atom %d, structure has %d atoms" % (PLURAL[k], int(tup.max()), n))
            table = _tolist(getattr(a, "%s_type_coeffs" % k))
            if typ.min() < 0:
                bad("negative-type-id", "%s_types contains %d" % (k, int(typ.min())))
            if len(table) and typ.max() >= len(table):
                bad("term-type-without-coefficients", "%s type id %d in use, %s_type_coeffs has %d entries" % (k, int(typ.max()), k, len(table)))
        xl = getattr(a, "extra_%s_labels" % k)
        xf = np.asarray(getattr(a, "extra_%s_fields" % k))
        if xf.ndim != 2 or xf.shape[0] != m or xf.shape[1] != len(xl):
            bad("extra-term-fields-shape", "extra_%s_fields has shape %s for %d terms and %d labels" % (k, xf.shape, m, len(xl)))


def abstract(a):
    """Resolve every type id of the real object through its tables."""
    n = len(a.positions)
    pos = np.asarray(a.positions, float).reshape(-1, 3)
    at = [int(t) for t in np.asarray(a.atom_types).astype(int)]
    els, labs, masses, pcs = _tolist(a.atom_type_elements), _tolist(a.atom_type_labels), _tolist(a.atom_type_masses), _tolist(a.pair_coeffs)
    xl = {"atom": list(a.extra_atom_labels)}
    atoms = []
    xf = np.asarray(a.extra_atom_fields)
    for i in range(n):
        t = at[i]
        ex = {lab: str(xf[i][li]) for li, lab in enumerate(xl["atom"])}
        def ent(table, t, what):
            return table[t] if 0 <= t < len(table) else "<no %s for type id %d>" % (what, t)
        m_ = masses[t] if 0 <= t < len(masses) else float("nan")
        atoms.append(RAtom(pos[i], ent(els, t, "element"), ent(labs, t, "label"), m_, a.charges[i], a.groups[i],
                           str(ent(pcs, t, "pair coefficients")) if len(pcs) else None, ex))
    terms = {}
    tabled = {}
    for k in KINDS:
        tup = np.asarray(getattr(a, PLURAL[k]))
        typ = np.asarray(getattr(a, "%s_types" % k))
        table = _tolist(getattr(a, "%s_type_coeffs" % k))
        xl[k] = list(getattr(a, "extra_%s_labels" % k))
        xf = np.asarray(getattr(a, "extra_%s_fields" % k))
        tabled[k] = len(table) > 0
        out = []
        for j in range(len(tup)):
            ex = {lab: str(xf[j][li]) for li, lab in enumerate(xl[k])}
            tid = int(typ[j])
            out.append(RTerm(tup[j], ("c", str(table[tid]) if 0 <= tid < len(table) else "<no coefficients for type id %d>" % tid) if table else ("t", tid), ex))
        terms[k] = out
    m = RefAtoms()
    m.atoms, m.terms, m.xlabels, m.tabled, m.has_pair = atoms, terms, xl, tabled, len(pcs) > 0
    m.cell = None if a.cell is None else np.asarray(a.cell, float).tolist()
    return m


# ---------------------------------------------------------------------------------------------------------------
# comparison

def _close(x, y, tol):
    return abs(x - y) <= tol


def compare(real, model, prefix, where, pos_tol=0.0, order="exact", coeff_eq=None, check_labels=True, check_extras=True,
            check_elements=True, mass_tol=0.0, charge_tol=0.0, cell_tol=1e-12, skip_kinds=()):
    """real, model: RefAtoms (real = abstract(Atoms)).  order: 'exact' (index-wise) or 'any' (atoms matched by position)."""
    def bad(cls, msg):
        raise Violation("%s:%s" % (prefix, cls), "%s (%s)" % (msg, where), site=where.split(" ")[0])
    coeff_eq = coeff_eq or (lambda x, y: x == y)
    if len(real.atoms) != len(model.atoms):
        bad("atom-count", "%d atoms, reference model has %d" % (len(real.atoms), len(model.atoms)))
    n = len(real.atoms)
    if order == "exact":
        perm = list(range(n))        # perm[model index] = real index
    else:
        perm = [None] * n
        rp = np.array([a.pos for a in real.atoms]).reshape(-1, 3)
        used = set()
        for mi, ma in enumerate(model.atoms):
            d = np.abs(rp - np.array(ma.pos)).max(axis=1) if n else np.zeros(0)
            cands = [int(j) for j in np.argsort(d)[:4] if j not in used and d[j] <= max(pos_tol, 1e-9) and real.atoms[j].el == ma.el]
            if not cands:
                bad("atom-missing", "no atom %s at %s" % (ma.el, list(ma.pos)))
            perm[mi] = cands[0]
            used.add(cands[0])
    for mi, ma in enumerate(model.atoms):
        ra = real.atoms[perm[mi]]
        if max(abs(x - y) for x, y in zip(ra.pos, ma.pos)) > pos_tol:
            bad("atom-position", "atom %d at %s, expected %s" % (perm[mi], list(ra.pos), list(ma.pos)))
        if check_elements and ra.el != ma.el:
            bad("atom-element", "atom %d resolves to element %r, expected %r" % (perm[mi], ra.el, ma.el))
        if check_labels and ra.label != ma.label:
            bad("atom-label", "atom %d resolves to type label %r, expected %r" % (perm[mi], ra.label, ma.label))
        if not _close(ra.mass, ma.mass, mass_tol):
            bad("atom-mass", "atom %d resolves to mass %r, expected %r" % (perm[mi], ra.mass, ma.mass))
        if not _close(ra.charge, ma.charge, charge_tol):
            bad("atom-charge", "atom %d has charge %r, expected %r" % (perm[mi], ra.charge, ma.charge))
        if ra.group != ma.group:
            bad("atom-group", "atom %d has group %r, expected %r" % (perm[mi], ra.group, ma.group))
        if (ra.pair is None) != (ma.pair is None) or (ra.pair is not None and not coeff_eq(ra.pair, ma.pair)):
            bad("atom-pair-coeffs", "atom %d resolves to pair coefficients %r, expected %r" % (perm[mi], ra.pair, ma.pair))
        if check_extras:
            for lab in sorted(set(ma.extras) | set(ra.extras)):
                if ra.extras.get(lab, ".") != ma.extras.get(lab, "."):
                    bad("atom-extra-field", "atom %d column %r is %r, expected %r" % (perm[mi], lab, ra.extras.get(lab, "."), ma.extras.get(lab, ".")))
    if check_extras:
        for k in XKINDS:
            if list(real.xlabels[k]) != list(model.xlabels[k]):
                # column order: labels of self first, new labels of other appended in order
                if sorted(real.xlabels[k]) != sorted(model.xlabels[k]):
                    bad("extra-labels", "extra %s labels %s, expected %s" % (k, real.xlabels[k], model.xlabels[k]))
    inv = {r: m for m, r in enumerate(perm)}
    for k in KINDS:
        if k in skip_kinds:
            continue
        rt, mt = real.terms[k], model.terms[k]
        if len(rt) != len(mt):
            bad("%s-count" % k, "%d %s, expected %d" % (len(rt), PLURAL[k], len(mt)))
        # multiset comparison of (atoms in model numbering, extras); then type resolution
        def key(t, conv=None):
            atoms = tuple(conv[a] for a in t.atoms) if conv is not None else t.atoms
            return (atoms, tuple(sorted((a, b) for a, b in t.extras.items() if b != ".")) if check_extras else ())
        from collections import defaultdict
        bucket = defaultdict(list)
        for t in mt:
            bucket[key(t)].append(t)
        tok_r2m, tok_m2r = {}, {}
        for t in rt:
            kk = key(t, inv)
            if not bucket.get(kk):
                bad("%s-unexpected" % k, "%s on atoms %s (extras %s) not expected" % (k, t.atoms, t.extras))
            # among model terms on the same atoms prefer one with an equal type key
            cands = bucket[kk]
            pick = None
            for c in cands:
                if c.tkey[0] == "c" and t.tkey[0] == "c" and coeff_eq(t.tkey[1], c.tkey[1]):
                    pick = c
                    break
            if pick is None:
                pick = cands[0]
            cands.remove(pick)
            if pick.tkey[0] == "c":
                if t.tkey[0] != "c":
                    bad("%s-coefficients-lost" % k, "%s on atoms %s has no coefficient table, expected %r" % (k, t.atoms, pick.tkey[1]))
                if not coeff_eq(t.tkey[1], pick.tkey[1]):
                    bad("%s-coefficients" % k, "%s on atoms %s resolves to %r, expected %r" % (k, t.atoms, t.tkey[1], pick.tkey[1]))
            else:
                if t.tkey[0] == "c":
                    bad("%s-coefficients-appeared" % k, "%s on atoms %s resolves to %r, expected no coefficient table" % (k, t.atoms, t.tkey[1]))
                r, m = t.tkey[1], pick.tkey[1]
                if tok_r2m.setdefault(r, m) != m or tok_m2r.setdefault(m, r) != r:
                    bad("%s-type-classes" % k, "%s on atoms %s has type id %r: terms that shared a type no longer do (or vice versa)" % (k, t.atoms, r))
    if (real.cell is None) != (model.cell is None):
        bad("cell", "cell is %r, expected %r" % (real.cell, model.cell))
    if real.cell is not None and np.abs(np.array(real.cell, float) - np.array(model.cell, float)).max() > cell_tol:
        bad("cell", "cell is %s, expected %s" % (real.cell, model.cell))
