"""Durable restarts through the simulated disk: save with the real writer, inspect with the independent reader, reload
with the real reader, compare everything with the reference model projected to what the format carries."""
import numpy as np

from . import readers, refmodel, seams
from .core import Violation, HarnessError
from .refmodel import KINDS, PLURAL, RefAtoms, RAtom, RTerm

SEC = {"bond": "Bonds", "angle": "Angles", "dihedral": "Dihedrals", "improper": "Impropers"}
CSEC = {"bond": "Bond Coeffs", "angle": "Angle Coeffs", "dihedral": "Dihedral Coeffs", "improper": "Improper Coeffs"}
TKEY = {"bond": "bond types", "angle": "angle types", "dihedral": "dihedral types", "improper": "improper types"}


def f6(x):
    return float("%10.6f" % x)


def lmp_oriented(cell):
    if cell is None:
        return True
    c = np.array(cell, float)
    return c[0, 1] == 0 and c[0, 2] == 0 and c[1, 2] == 0


def lmpdat_projection(model, style, rounded=True):
    """What a LAMMPS data file of the given atom style can carry of the model (rounded=True: values as printed with 6 decimals)."""
    m = model.clone()
    fr = f6 if rounded else float
    for a in m.atoms:
        a.pos = tuple(fr(x) for x in a.pos)
        a.mass = fr(a.mass)
        a.extras = {}
        if style == "full":
            a.charge = fr(a.charge)
        else:
            a.charge, a.group = 0.0, 0
    for k in KINDS:
        for t in m.terms[k]:
            t.extras = {}
    m.xlabels = {k: [] for k in m.xlabels}
    if m.cell is not None and rounded:
        c = np.array(m.cell, float)
        if np.allclose(c, np.diag(np.diag(c)), atol=0, rtol=0):
            m.cell = np.diag([f6(c[0, 0]), f6(c[1, 1]), f6(c[2, 2])]).tolist()
        else:
            m.cell = [[f6(c[0, 0]), 0.0, 0.0], [f6(c[1, 0]), f6(c[1, 1]), 0.0], [f6(c[2, 0]), f6(c[2, 1]), f6(c[2, 2])]]
    return m


def path_arg(path, pathkind):
    """How the caller spells a path: plain string, pathlib.Path, or (odd_ext) a name whose extension says nothing, in
    which case the documented explicit filetype is passed along."""
    if pathkind == "pathlib":
        import pathlib
        return pathlib.Path(path)
    return path


def save_lmpdat(ctx, fs, real, via, style, name, prefix, fault=None, pathkind="std"):
    """Write `real` with the real writer through the chosen branch.  Returns the durable text."""
    path = ("/sim/%s.v2.lmpdat" if pathkind == "dotted" else "/sim/%s.lmpdat") % name if pathkind != "odd_ext" else "/sim/%s.lmpdat.%s" % (name, ("bak", "cif", "0", "data")[len(name) % 4])
    wscript = fault or {}
    if via == "path":
        fs.script = dict(fs.script, write=wscript)
        try:
            if pathkind == "odd_ext":
                ctx.count("explicit_filetype_over_extension")
                real.save(path, filetype="lmpdat", atom_format=style)
            else:
                real.save(path_arg(path, pathkind), atom_format=style)
        finally:
            fs.script = dict(fs.script, write={})
        handles = [h for h in fs.open_handles if h.path_ == path and h.mode_ != "r"]
        if handles and not handles[-1].closed_:
            raise Violation("%s:file-left-open" % prefix, "Atoms.save(path) returned normally but left %s open (pending %d characters)" % (path, len(handles[-1].pending)), site="save")
    else:
        fh = fs.writer(path, script=wscript)
        if via == "file":
            real.save(fh, filetype="lmpdat", atom_format=style)
        else:
            real.save_lmpdat(fh, atom_format=style)
        if fh.closed_:
            ctx.count("writer_closed_callers_file")
        fh.close()
    return fs.files[path], path


def load_lmpdat(ctx, fs, path, via, style, read_script=None, pathkind="std"):
    from mofun import Atoms
    if via == "path":
        fs.script = dict(fs.script, read=read_script or {})
        try:
            if not path.endswith(".lmpdat"):
                a = Atoms.load(path_arg(path, pathkind), filetype="lmpdat", atom_format=style)
            else:
                a = Atoms.load(path_arg(path, pathkind), atom_format=style)
        finally:
            fs.script = dict(fs.script, read={})
        return a
    fh = fs.open(path, "r") if read_script is None else fs.reader(fs.files[path], name=path, script=read_script)
    if via == "file":
        a = Atoms.load(fh, filetype="lmpdat", atom_format=style)
    else:
        a = Atoms.load_lmpdat(fh, atom_format=style)
    fh.close()
    return a


def check_file_against_model(text, model, style, prefix, where):
    """(i) the independent strict reader's view of the file == the model."""
    def bad(cls, msg):
        raise Violation("%s:%s" % (prefix, cls), "%s (%s)" % (msg, where), site="save_lmpdat")
    try:
        d = readers.read_lmpdat_strict(text, style)
    except readers.FormatError as e:
        bad("file-inconsistent", "written LAMMPS data file is not self-consistent: %s" % e)
    proj = lmpdat_projection(model, style)
    # printed precision is read off the file (a writer may legitimately print more or fewer digits)
    ncol0 = 4 if style == "full" else 2
    dpos = min([readers.decimals(t) for a in d["atoms"] for t in a["tok"][ncol0:ncol0 + 3]] or [6])
    dq = min([readers.decimals(a["tok"][3]) for a in d["atoms"]] or [6]) if style == "full" else 6
    dmass = min([readers.decimals(t) for t in d.get("mass_tokens", [])] or [6])
    prec = {"pos": readers.half_unit(dpos), "charge": readers.half_unit(dq), "mass": readers.half_unit(dmass),
            "cell": readers.half_unit(min([readers.decimals(t) for t in d.get("box_tokens", [])] or [6]))}
    if len(d["atoms"]) != len(proj.atoms):
        bad("file-atom-count", "file has %d atoms, structure %d" % (len(d["atoms"]), len(proj.atoms)))
    cell = readers.cell_from_lmp(d["box"], d["tilt"])
    if (cell is None) != (proj.cell is None):
        bad("file-box", "box lines %s, structure cell %s" % (d["box"], proj.cell))
    if cell is not None:
        for k in "xyz":
            if d["box"][k][0] != 0.0:
                bad("file-box", "box does not start at 0: %s" % (d["box"],))
        mc = np.array(model.cell, float)
        if np.abs(np.array(cell) - mc).max() > 2 * prec["cell"]:
            bad("file-box", "box/tilt in the file give cell %s, structure has %s" % (cell, proj.cell))
    masses = d["masses"]
    pc = d["coeffs"].get("Pair Coeffs")
    if proj.has_pair and pc is None and len(proj.atoms):
        bad("file-pair-coeffs-missing", "structure has pair coefficients, file has no Pair Coeffs section")
    for i, (fa, ma0) in enumerate(zip(d["atoms"], model.atoms)):
        ma = proj.atoms[i]
        if max(abs(x - y) for x, y in zip(fa["pos"], ma0.pos)) > prec["pos"]:
            bad("file-atom-position", "atom %d at %s in the file, %s in the structure" % (i + 1, fa["pos"], ma0.pos))
        mass, label = masses[fa["type"] - 1]
        if abs(mass - ma0.mass) > prec["mass"]:
            bad("file-atom-mass", "atom %d has type %d with mass %r in the file, %r in the structure" % (i + 1, fa["type"], mass, ma.mass))
        if label != ma.label:
            bad("file-atom-label", "atom %d has type %d labelled %r in the file, %r in the structure" % (i + 1, fa["type"], label, ma.label))
        if style == "full":
            if abs(fa["q"] - ma0.charge) > prec["charge"]:
                bad("file-atom-charge", "atom %d charge %r in the file, %r in the structure" % (i + 1, fa["q"], ma.charge))
            if fa["mol"] != ma.group + 1:
                bad("file-atom-molecule", "atom %d molecule id %d in the file, group %d in the structure" % (i + 1, fa["mol"], ma.group))
        if ma.pair is not None:
            if pc is None:
                bad("file-pair-coeffs-missing", "no Pair Coeffs section")
            toks, comment = pc[fa["type"] - 1]
            if (toks, comment) != readers.coeff_tokens(ma.pair):
                bad("file-pair-coeffs", "atom %d: type %d has pair coefficients %r in the file, %r in the structure" % (i + 1, fa["type"], (toks, comment), ma.pair))
    for k in KINDS:
        rows = d["terms"][SEC[k]]
        mt = proj.terms[k]
        if len(rows) != len(mt):
            bad("file-%s-count" % k, "file has %d %s, structure %d" % (len(rows), PLURAL[k], len(mt)))
        table = d["coeffs"].get(CSEC[k])
        from collections import defaultdict
        bucket = defaultdict(list)
        for t in mt:
            bucket[t.atoms].append(t)
        r2m, m2r = {}, {}
        for typ, ids in rows:
            key = tuple(a - 1 for a in ids)
            if not bucket.get(key):
                bad("file-%s-unexpected" % k, "file has a %s on atoms %s that the structure lacks" % (k, ids))
            cands = bucket[key]
            pick = None
            if table is not None:
                for c in cands:
                    if c.tkey[0] == "c" and readers.coeff_tokens(c.tkey[1]) == table[typ - 1]:
                        pick = c
                        break
            pick = pick or cands[0]
            cands.remove(pick)
            if pick.tkey[0] == "c":
                if table is None:
                    bad("file-%s-coeffs-missing" % k, "structure has %s coefficients, file has no %s section" % (k, CSEC[k]))
                if table[typ - 1] != readers.coeff_tokens(pick.tkey[1]):
                    bad("file-%s-coeffs" % k, "%s on atoms %s: type %d is %r in the file, %r in the structure" % (k, ids, typ, table[typ - 1], pick.tkey[1]))
            else:
                if r2m.setdefault(typ, pick.tkey[1]) != pick.tkey[1] or m2r.setdefault(pick.tkey[1], typ) != typ:
                    bad("file-%s-type-classes" % k, "%s on atoms %s: type id %d does not preserve which terms share a type" % (k, ids, typ))
    d["prec"] = prec
    return d


def same_handle_roundtrip(ctx, fs, real, via_save, via_load, style, name, prefix):
    """The caller's own "w+" stream: written by the real writer, rewound, read by the real reader - through ONE handle that the
    caller opened and the caller closes.  Returns (durable text, path, reloaded)."""
    from mofun import Atoms
    path = "/sim/%s.lmpdat" % name
    fh = fs.rw(path)
    if via_save == "file":
        real.save(fh, filetype="lmpdat", atom_format=style)
    else:
        real.save_lmpdat(fh, atom_format=style)
    try:
        fh.seek(0)
    except ValueError as e:
        raise Violation("%s:callers-stream-closed" % prefix, "writing to the caller's open read/write stream closed it: rewinding and reading it back fails (%s)" % e, site="save")
    text = fs.files[path]
    re = Atoms.load(fh, filetype="lmpdat", atom_format=style) if via_load == "file" else Atoms.load_lmpdat(fh, atom_format=style)
    try:
        fh.seek(0)
    except ValueError as e:
        raise Violation("%s:callers-stream-closed" % prefix, "reading from the caller's open stream closed it (%s)" % e, site="load")
    fh.close()
    ctx.count("same_handle_roundtrips")
    return text, path, re


def restart_lmpdat(ctx, fs, real, model, name, style="full", via_save="path", via_load="path", prefix="c09", read_script=None,
                   idempotence=False, pathkind="std", same_handle=False):
    """Full durable restart.  Returns (reloaded Atoms, its model)."""
    where = "restart lmpdat %s save:%s load:%s" % (style, via_save, via_load)
    if len(model.atoms) == 0:
        return None, None
    if not lmp_oriented(model.cell):
        ctx.count("restart_skipped_cell_not_lammps_oriented")
        return None, None
    re = None
    try:
        if same_handle and via_save != "path" and via_load != "path":
            text, path, re = same_handle_roundtrip(ctx, fs, real, via_save, via_load, style, name, prefix)
        else:
            text, path = save_lmpdat(ctx, fs, real, via_save, style, name, prefix, pathkind=pathkind)
    except Violation:
        raise
    except Exception as e:
        raise Violation("raises:%s" % type(e).__name__, "saving a consistent non-empty structure as LAMMPS data: %s" % e, site="save_lmpdat")
    ctx.count("restarts")
    ctx.last_restart_path = path
    prec = check_file_against_model(text, model, style, prefix, where)["prec"]
    try:
        if re is None:
            re = load_lmpdat(ctx, fs, path, via_load, style, read_script, pathkind=pathkind)
    except Exception as e:
        raise Violation("raises:%s" % type(e).__name__, "reading back the LAMMPS data file just written: %s" % e, site="load_lmpdat")
    proj = lmpdat_projection(model, style, rounded=False)
    refmodel.structural_invariants(re, where)
    refmodel.compare(refmodel.abstract(re), proj, prefix, where + " reload", coeff_eq=readers.coeff_eq, check_elements=False,
                     pos_tol=prec["pos"], mass_tol=prec["mass"], charge_tol=prec["charge"], cell_tol=2 * prec["cell"])
    if idempotence:
        t2, p2 = save_lmpdat(ctx, fs, re, via_save, style, name + "_2", prefix)
        re2 = load_lmpdat(ctx, fs, p2, via_load, style)
        t3, p3 = save_lmpdat(ctx, fs, re2, via_save, style, name + "_3", prefix)
        if t2 != t3:
            l2, l3 = t2.split("\n"), t3.split("\n")
            k = next((i for i in range(min(len(l2), len(l3))) if l2[i] != l3[i]), min(len(l2), len(l3)))
            raise Violation("%s:rewrite-not-stable" % prefix, "writing the re-read structure is not byte-stable after one normalising pass: line %d %r vs %r"
                            % (k + 1, l2[k] if k < len(l2) else None, l3[k] if k < len(l3) else None), site="save_lmpdat")
        ctx.count("idempotence_checks")
    return re, refmodel.abstract(re)
