"""Independent readers/writers ("foreign nodes"): they share no code with mofun, so a reader and a writer that are wrong
in the same way do not cancel."""
import re

import numpy as np

from .core import Violation

SECTIONS = ["Masses", "Pair Coeffs", "Bond Coeffs", "Angle Coeffs", "Dihedral Coeffs", "Improper Coeffs",
            "Atoms", "Bonds", "Angles", "Dihedrals", "Impropers"]
COUNT_KEYS = ["atoms", "bonds", "angles", "dihedrals", "impropers"]
TYPE_KEYS = ["atom types", "bond types", "angle types", "dihedral types", "improper types"]


class FormatError(Exception):
    pass


def split_comment(line):
    if "#" in line:
        body, comment = line.split("#", 1)
        return body.strip(), comment.strip()
    return line.strip(), None


def read_lmpdat_strict(text, style="full"):
    """Strict reader of the documented LAMMPS data format (read_data): header, box, sections; 1-based ids.
    Raises FormatError when declared counts and contents disagree."""
    lines = text.split("\n")
    if not lines:
        raise FormatError("empty file")
    out = {"title": lines[0], "counts": {}, "types": {}, "box": {}, "tilt": None, "sections": {}}
    i = 1
    n = len(lines)
    # header: until the first section keyword
    while i < n:
        body, comment = split_comment(lines[i])
        if body in SECTIONS or re.match(r"^Atoms\b", body):
            break
        if body == "":
            i += 1
            continue
        toks = body.split()
        matched = False
        for key in COUNT_KEYS + TYPE_KEYS:
            kt = key.split()
            if toks[1:] == kt:
                try:
                    val = int(toks[0])
                except ValueError:
                    raise FormatError("header line %r: count is not an integer" % lines[i])
                (out["types"] if "types" in key else out["counts"])[key] = val
                matched = True
                break
        if not matched:
            if len(toks) == 4 and toks[2:] in (["xlo", "xhi"], ["ylo", "yhi"], ["zlo", "zhi"]):
                out["box"][toks[2][0]] = (float(toks[0]), float(toks[1]))
                out.setdefault("box_tokens", []).extend(toks[:2])
            elif len(toks) == 6 and toks[3:] == ["xy", "xz", "yz"]:
                out["tilt"] = (float(toks[0]), float(toks[1]), float(toks[2]))
                out.setdefault("box_tokens", []).extend(toks[:3])
            else:
                raise FormatError("unrecognised header line %r" % lines[i])
        i += 1
    # sections
    cur = None
    while i < n:
        body, comment = split_comment(lines[i])
        if body in SECTIONS:
            if body in out["sections"]:
                raise FormatError("section %s appears twice" % body)
            cur = body
            out["sections"][cur] = []
            # a section header must be followed by a blank line
            if i + 1 < n and lines[i + 1].strip() != "":
                raise FormatError("section %s not followed by a blank line" % body)
            i += 2
            continue
        if body == "":
            i += 1
            continue
        if cur is None:
            raise FormatError("data line outside any section: %r" % lines[i])
        out["sections"][cur].append((body.split(), comment, lines[i]))
        i += 1
    # declared counts vs contents
    c, t, s = out["counts"], out["types"], out["sections"]
    for key, sec in (("atoms", "Atoms"), ("bonds", "Bonds"), ("angles", "Angles"), ("dihedrals", "Dihedrals"), ("impropers", "Impropers")):
        have = len(s.get(sec, []))
        if c.get(key, 0) != have:
            raise FormatError("header declares %d %s, section %s has %d lines" % (c.get(key, 0), key, sec, have))
    natoms = c.get("atoms", 0)
    if natoms and t.get("atom types", 0) < 1:
        raise FormatError("atoms present but no 'atom types' declared")
    if len(s.get("Masses", [])) != t.get("atom types", 0):
        raise FormatError("header declares %d atom types, Masses has %d lines" % (t.get("atom types", 0), len(s.get("Masses", []))))
    for sec, key in (("Pair Coeffs", "atom types"), ("Bond Coeffs", "bond types"), ("Angle Coeffs", "angle types"),
                     ("Dihedral Coeffs", "dihedral types"), ("Improper Coeffs", "improper types")):
        if sec in s and len(s[sec]) != t.get(key, 0):
            raise FormatError("header declares %d %s, section %s has %d lines" % (t.get(key, 0), key, sec, len(s[sec])))
    for sec in ("Masses", "Pair Coeffs", "Bond Coeffs", "Angle Coeffs", "Dihedral Coeffs", "Improper Coeffs", "Atoms", "Bonds", "Angles", "Dihedrals", "Impropers"):
        for k, (toks, comment, raw) in enumerate(s.get(sec, [])):
            try:
                ident = int(toks[0])
            except (ValueError, IndexError):
                raise FormatError("section %s line %r: id is not an integer" % (sec, raw))
            if ident != k + 1:
                raise FormatError("section %s: ids are not 1..N in order (line %r)" % (sec, raw))
    ncol = {"full": 7, "atomic": 5}[style]
    atoms = []
    for toks, comment, raw in s.get("Atoms", []):
        if len(toks) != ncol:
            raise FormatError("Atoms line %r has %d columns, atom_style %s needs %d" % (raw, len(toks), style, ncol))
        if style == "full":
            mol, typ, q, x, y, z = int(toks[1]), int(toks[2]), float(toks[3]), float(toks[4]), float(toks[5]), float(toks[6])
        else:
            mol, typ, q, x, y, z = 1, int(toks[1]), 0.0, float(toks[2]), float(toks[3]), float(toks[4])
        if not 1 <= typ <= t.get("atom types", 0):
            raise FormatError("Atoms line %r: type %d outside 1..%d" % (raw, typ, t.get("atom types", 0)))
        atoms.append({"mol": mol, "type": typ, "q": q, "pos": (x, y, z), "tok": toks})
    out["atoms"] = atoms
    out["terms"] = {}
    for sec, key, ar in (("Bonds", "bond types", 2), ("Angles", "angle types", 3), ("Dihedrals", "dihedral types", 4), ("Impropers", "improper types", 4)):
        rows = []
        for toks, comment, raw in s.get(sec, []):
            if len(toks) != 2 + ar:
                raise FormatError("%s line %r has %d columns" % (sec, raw, len(toks)))
            typ = int(toks[1])
            ids = [int(x) for x in toks[2:]]
            if not 1 <= typ <= t.get(key, 0):
                raise FormatError("%s line %r: type %d outside 1..%d (declared %s)" % (sec, raw, typ, t.get(key, 0), key))
            if any(not 1 <= a <= natoms for a in ids):
                raise FormatError("%s line %r refers to an atom outside 1..%d" % (sec, raw, natoms))
            rows.append((typ, ids))
        out["terms"][sec] = rows
    out["masses"] = [(float(toks[1]), comment) for toks, comment, raw in s.get("Masses", [])]
    out["mass_tokens"] = [toks[1] for toks, comment, raw in s.get("Masses", [])]
    out["coeffs"] = {sec: [(toks[1:], comment) for toks, comment, raw in s[sec]] for sec in s if sec.endswith("Coeffs")}
    return out


def coeff_tokens(text):
    """A coefficient entry as (tokens, comment)."""
    body, comment = split_comment(str(text))
    return body.split(), comment


def coeff_eq(a, b):
    return coeff_tokens(a) == coeff_tokens(b)


def cell_from_lmp(box, tilt):
    if not all(k in box for k in "xyz"):
        return None
    lx, ly, lz = (box[k][1] - box[k][0] for k in "xyz")
    xy, xz, yz = tilt or (0.0, 0.0, 0.0)
    return [[lx, 0.0, 0.0], [xy, ly, 0.0], [xz, yz, lz]]


# ---------------------------------------------------------------------------------------------------------------
# minimal CIF reader for the loops mofun writes (independent of PyCifRW)

def cif_tokenize(text):
    toks = []
    lines = text.split("\n")
    i = 0
    while i < len(lines):
        line = lines[i]
        if line.startswith(";"):
            buf = [line[1:]]
            i += 1
            while i < len(lines) and not lines[i].startswith(";"):
                buf.append(lines[i])
                i += 1
            toks.append(("str", "\n".join(buf).strip()))
            i += 1
            continue
        pos = 0
        while pos < len(line):
            ch = line[pos]
            if ch in " \t\r":
                pos += 1
                continue
            if ch == "#":
                break
            if ch in "'\"":
                end = pos + 1
                while True:
                    end = line.find(ch, end)
                    if end < 0:
                        end = len(line)
                        break
                    if end + 1 >= len(line) or line[end + 1] in " \t":
                        break
                    end += 1
                toks.append(("str", line[pos + 1:end]))
                pos = end + 1
                continue
            end = pos
            while end < len(line) and line[end] not in " \t":
                end += 1
            toks.append(("bare", line[pos:end]))
            pos = end
        i += 1
    return toks


def read_cif_simple(text):
    """Returns {"items": {tag: value}, "loops": [ {tag: [values...]} ... ]} of the first data block (tags lower-cased)."""
    toks = cif_tokenize(text)
    items, loops = {}, []
    i = 0
    n = len(toks)
    seen_data = False
    while i < n:
        kind, v = toks[i]
        if kind == "bare" and v.lower().startswith("data_"):
            if seen_data:
                break
            seen_data = True
            i += 1
        elif kind == "bare" and v.lower() == "loop_":
            i += 1
            tags = []
            while i < n and toks[i][0] == "bare" and toks[i][1].startswith("_"):
                tags.append(toks[i][1].lower())
                i += 1
            vals = []
            while i < n and not (toks[i][0] == "bare" and (toks[i][1].startswith("_") or toks[i][1].lower() == "loop_" or toks[i][1].lower().startswith("data_"))):
                vals.append(toks[i][1])
                i += 1
            if tags and len(vals) % len(tags) != 0:
                raise FormatError("loop with %d tags has %d values" % (len(tags), len(vals)))
            loops.append({t: vals[k::len(tags)] for k, t in enumerate(tags)})
        elif kind == "bare" and v.startswith("_"):
            if i + 1 >= n:
                raise FormatError("tag %s without value" % v)
            items[v.lower()] = toks[i + 1][1]
            i += 2
        else:
            raise FormatError("unexpected token %r" % (v,))
    return {"items": items, "loops": loops}


def cif_number(s):
    return float(re.sub(r"\(\d+\)", "", s))


# ---------------------------------------------------------------------------------------------------------------
# CML writer (Avogadro flavour)

def write_cml(atoms, bonds, id_scheme, attr_order=None, extra_ws=False, declaration=False, extras=False):
    """atoms: [(id, element, x, y, z)], bonds: [(id1, id2, order)]; floats are written with repr (exact).  The flavour is the
    one of the repository's own files (Avogadro export without namespace)."""
    out = []
    if declaration:
        out.append('<?xml version="1.0" encoding="UTF-8"?>')
    out += ['<molecule formalCharge="0">' if extras else "<molecule>", " <atomArray>"]
    for k, (aid, el, x, y, z) in enumerate(atoms):
        attrs = [("id", aid), ("elementType", el), ("x3", repr(float(x))), ("y3", repr(float(y))), ("z3", repr(float(z)))]
        if attr_order:
            attrs = [attrs[i] for i in attr_order]
        if extras and k % 3 == 0:
            attrs.insert(2, ("formalCharge", "1"))
        out.append("  <atom " + " ".join('%s="%s"' % kv for kv in attrs) + ("/>" if k % 2 else " />"))
    out.append(" </atomArray>")
    if bonds is not None:
        if len(bonds) == 0 and extra_ws:
            out.append(" <bondArray/>")
        else:
            out.append(" <bondArray>")
            for a, b, order in bonds:
                sep = "  " if extra_ws else " "
                out.append('  <bond atomRefs2="%s%s%s" order="%s"/>' % (a, sep, b, order))
            out.append(" </bondArray>")
    if extras:
        out.append(" <dataMap />")
    out.append("</molecule>")
    return "\n".join(out) + "\n"


def decimals(tok):
    """Number of digits printed after the decimal point of a numeric token (printed precision); 15 for exponent notation."""
    t = re.sub(r"\(\d+\)", "", str(tok))
    if "e" in t.lower():
        return 15
    return len(t.split(".")[1]) if "." in t else 0


def half_unit(d):
    """Largest difference between a value and its rendering with d decimals (plus one part in a million of slack)."""
    return 0.5000005 * 10.0 ** (-d) + 1e-12
