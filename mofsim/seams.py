"""The seams the simulator owns: scripted random source, simulated disk / file objects, call taps, output sink.

Everything here is installed on *module attributes* of the real mofun package for the duration of one run and removed
afterwards; nothing in /repo needs to change.
"""
import contextlib
import errno
import io
import os
import random as _pyrandom
import sys

import numpy as np

from .core import HarnessError


# ---------------------------------------------------------------------------------------------------------------
# random seam

class SimRandom:
    """Stands in for the `random` module inside mofun and for numpy.random.random.

    script = {"choice": policy, "sample": policy, "axis": policy, "seed": int}
    policy = {"kind": "mt"} | {"kind": "first"} | {"kind": "last"} | {"kind": "alternate"} |
             {"kind": "explicit", "list": [...]}  (exhausted explicit lists fall back to "first")
    axis policies additionally: {"kind": "aligned", "axis": 0|1|2}, {"kind": "near_parallel", "delta": d},
             {"kind": "near_antiparallel", "delta": d}   (relative to the vector being rotated, learnt from the tap)
    Every decision is recorded in ctx's event log and in self.decisions.
    """

    def __init__(self, script, ctx):
        self.ctx = ctx
        self.reset(script)

    def reset(self, script):
        self.script = script or {}
        self.ctx.event("rng", "script", self.script)
        seed = int(self.script.get("seed", 0))
        self._mt = {site: _pyrandom.Random((seed << 8) + i) for i, site in enumerate(("choice", "sample", "axis", "other"))}
        self._n = {"choice": 0, "sample": 0, "axis": 0}
        self.decisions = []
        self.last_v1 = None        # set by the quaternion tap: the vector about to be rotated
        self.last_sample = None    # indices selected by the last sample() call
        self.last_sample_idx, self.last_sample_n = None, None

    # -- helpers
    def _policy(self, site):
        return self.script.get(site) or {"kind": "mt"}

    def _record(self, site, *data):
        self.decisions.append((site,) + data)
        self.ctx.event("rng", site, *data)
        self.ctx.count("rng_%s_draws" % site)

    def _pick_index(self, site, n):
        pol = self._policy(site)
        k = self._n[site]
        self._n[site] += 1
        kind = pol.get("kind", "mt")
        if kind == "mt":
            return self._mt[site].randrange(n)
        if kind == "first":
            return 0
        if kind == "last":
            return n - 1
        if kind == "alternate":
            return 0 if k % 2 == 0 else n - 1
        if kind == "explicit":
            lst = pol.get("list", [])
            return int(lst[k]) % n if k < len(lst) else 0
        raise HarnessError("unknown rng policy %r" % (pol,))

    # -- the `random` module API used by mofun
    def choice(self, seq):
        n = len(seq)
        if n == 0:
            raise IndexError("Cannot choose from an empty sequence")
        i = self._pick_index("choice", n)
        self._record("choice", n, i)
        if n > 1:
            self.ctx.count("tie_breaks_with_more_than_one_candidate")
        return seq[i]

    def sample(self, population, k, **kw):
        population = list(population)
        n = len(population)
        if not 0 <= k <= n:
            raise ValueError("Sample larger than population or is negative")
        pol = self._policy("sample")
        kind = pol.get("kind", "mt")
        self._n["sample"] += 1
        if kind == "mt":
            idx = self._mt["sample"].sample(range(n), k)
        elif kind == "first":
            idx = list(range(k))
        elif kind == "last":
            idx = list(range(n - k, n))
        elif kind == "alternate":
            idx = [(i // 2) if i % 2 == 0 else n - 1 - (i // 2) for i in range(k)]
        elif kind == "reversed":
            idx = list(range(n - 1, n - 1 - k, -1))
        elif kind == "explicit":
            idx = []
            for j in pol.get("list", []):
                j = int(j) % n if n else 0
                if j not in idx and len(idx) < k:
                    idx.append(j)
            for j in range(n):
                if len(idx) < k and j not in idx:
                    idx.append(j)
        else:
            raise HarnessError("unknown sample policy %r" % (pol,))
        self._record("sample", n, k, list(idx))
        if 0 < k < n:
            self.ctx.count("sample_calls_with_0<k<M")
        self.last_sample = [population[i] for i in idx]
        self.last_sample_idx, self.last_sample_n = [int(i) for i in idx], n     # WHICH members of the population, whatever they are
        return [population[i] for i in idx]

    def shuffle(self, x):
        # not used by the pinned code; supported so that an equivalent rewrite keeps working under the seam
        perm = self.sample(range(len(x)), len(x))
        x[:] = [x[i] for i in perm]

    def __getattr__(self, name):
        # any other attribute of the random module: served by a private deterministic generator, recorded
        mt = self._mt["other"]
        attr = getattr(mt, name)
        if callable(attr):
            def wrapped(*a, **kw):
                r = attr(*a, **kw)
                self._record("other", name)
                return r
            return wrapped
        return attr

    # -- numpy.random.random replacement
    def np_random(self, size=None):
        pol = self._policy("axis")
        kind = pol.get("kind", "mt")
        self._n["axis"] += 1
        n = 1 if size is None else int(np.prod(size))
        mt = self._mt["axis"]
        if n != 3 or kind == "mt":
            vals = [mt.random() for _ in range(n)]
        else:
            v1 = self.last_v1
            if kind == "aligned":
                vals = [0.0, 0.0, 0.0]
                vals[int(pol.get("axis", 0)) % 3] = 0.5 + 0.5 * mt.random()
                # a draw exactly (anti)parallel to v1 is the one excluded generator output: nudge off it
                if v1 is not None and np.linalg.norm(np.cross(v1, vals)) < 1e-6 * max(1e-300, np.linalg.norm(vals)):
                    vals[(int(pol.get("axis", 0)) + 1) % 3] = 0.25
            elif kind in ("near_parallel", "near_antiparallel") and v1 is not None and np.linalg.norm(v1) > 0:
                # numpy.random.random draws from [0,1)^3: a draw can be near-parallel to v1 only if v1's components
                # share a sign; otherwise fall back to the closest legal thing (a genuine draw).
                u = np.array(v1, dtype=float) / np.linalg.norm(v1)
                delta = float(pol.get("delta", 1e-4))
                perp = np.cross(u, [1.0, 0.0, 0.0])
                if np.linalg.norm(perp) < 0.1:
                    perp = np.cross(u, [0.0, 1.0, 0.0])
                perp /= np.linalg.norm(perp)
                cand = None
                for sgn in (1.0, -1.0):
                    w = sgn * u + delta * perp
                    w = w / np.max(np.abs(w)) * 0.9
                    if (w >= 0).all() and (w < 1).all():
                        cand = w
                        break
                vals = list(cand) if cand is not None else [mt.random() for _ in range(3)]
                if cand is not None:
                    self.ctx.count("adversarial_axis_draws")
            else:
                vals = [mt.random() for _ in range(n)]
        self._record("axis", [float(v) for v in vals])
        self.ctx.count("antiparallel_draws")
        arr = np.array(vals, dtype=float)
        if size is None:
            return float(arr[0])
        return arr.reshape(size)


# ---------------------------------------------------------------------------------------------------------------
# file seam

class SimFault(OSError):
    pass


class SimFS:
    """In-memory disk.  files[path] = durable text.  Writers buffer into `pending` and make text durable on
    flush/close, exactly as far as the fault script allows."""

    def __init__(self, ctx, script=None):
        self.ctx = ctx
        self.files = {}
        self.script = script or {}
        self.open_handles = []
        self.stats = {}

    def stat(self, k, n=1):
        self.stats[k] = self.stats.get(k, 0) + n
        self.ctx.count("fs_" + k, n)

    def open(self, path, mode="r", **kw):
        path = str(path)
        self.ctx.event("fs", "open", path, mode)
        self.stat("opens")
        if "b" in mode:
            raise HarnessError("SimFS is text-only (mode %r)" % mode)
        if "r" in mode:
            if path not in self.files:
                raise FileNotFoundError(errno.ENOENT, "No such file or directory (simulated)", path)
            f = SimTextFile(self, path, "r", self.files[path], self.script.get("read", {}))
        elif "w" in mode or "a" in mode:
            if "w" in mode:
                self.files[path] = ""   # O_TRUNC is immediate and durable (as on a journaling fs with data=ordered)
            f = SimTextFile(self, path, mode, "", self.script.get("write", {}))
        else:
            raise HarnessError("unsupported mode %r" % mode)
        self.open_handles.append(f)
        return f

    def reader(self, text, name="<stream>", script=None):
        f = SimTextFile(self, name, "r", text, script if script is not None else self.script.get("read", {}))
        self.open_handles.append(f)
        return f

    def writer(self, name, script=None):
        self.files[name] = ""
        f = SimTextFile(self, name, "w", "", script if script is not None else self.script.get("write", {}))
        self.open_handles.append(f)
        return f

    def rw(self, name, script=None):
        """A caller's own read/write stream ("w+"): written, rewound with seek(0) and read again through the same handle."""
        self.files[name] = ""
        f = SimTextFile(self, name, "w+", "", script if script is not None else self.script.get("write", {}))
        self.open_handles.append(f)
        return f

    def crash(self):
        """Power loss: every open handle is dropped; pending (unflushed) text is lost."""
        lost = 0
        for f in self.open_handles:
            if not f.closed_ and f.mode_ != "r":
                lost += len(f.pending)
                f.pending = ""
            f.closed_ = True
        self.open_handles = []
        self.stat("crashes")
        self.ctx.event("fs", "crash", lost)
        return lost


class SimTextFile(io.TextIOBase):
    """A conforming text stream whose chunking and faults are scripted.

    read script:  {"chunk": "whole"|"one"|"prime"|"random", "seed": s, "eio_at_read": k|None}
      - read(n) with n>0 may legally return 1..n characters (never 0 before EOF);
      - read() / read(-1) returns everything up to EOF (io contract); readline/iteration go line by line.
    write script: {"enospc_after": k|None, "eio_after": k|None, "torn_at": k|None}
      - after k characters accepted, the next write raises OSError(ENOSPC/EIO); accepted characters become durable on
        flush/close; torn_at=k means a crash makes only the first k characters durable.
    """

    def __init__(self, fs, path, mode, text, script):
        super().__init__()
        self.fs, self.path_, self.mode_, self.text, self.pos = fs, path, mode, text, 0
        self.script = script or {}
        self.pending = ""
        self.accepted = 0
        self.closed_ = False
        self.nreads = 0
        self._rng = _pyrandom.Random(int(self.script.get("seed", 0)))

    # -- io.TextIOBase protocol
    def readable(self):
        return self.mode_ == "r" or "+" in self.mode_

    def writable(self):
        return self.mode_ != "r"

    def seekable(self):
        return "+" in self.mode_

    def seek(self, pos, whence=0):
        """Only the rewind of a "w+" stream is supported: what was written becomes durable and is read from the start."""
        self._check_open()
        if "+" not in self.mode_ or pos != 0 or whence != 0:
            raise io.UnsupportedOperation("seek")
        self.flush()
        self.text = self.fs.files.get(self.path_, "")
        self.pos = 0
        self.fs.ctx.event("fs", "rewind", self.path_, len(self.text))
        return 0

    @property
    def closed(self):
        return self.closed_

    @property
    def name(self):
        return self.path_

    def _check_open(self):
        if self.closed_:
            raise ValueError("I/O operation on closed file (simulated)")

    def _maybe_eio(self):
        self.nreads += 1
        k = self.script.get("eio_at_read")
        if k is not None and self.nreads == int(k):
            self.fs.stat("eio_read_fired")
            self.fs.ctx.event("fs", "fault", "EIO-read", self.path_, self.nreads)
            raise SimFault(errno.EIO, "Input/output error (simulated)", self.path_)

    def read(self, size=-1):
        self._check_open()
        if not self.readable():
            raise io.UnsupportedOperation("not readable")
        self._maybe_eio()
        remaining = len(self.text) - self.pos
        if size is None or size < 0:
            n = remaining
        else:
            n = min(size, remaining)
            mode = self.script.get("chunk", "whole")
            if n > 1:
                if mode == "one":
                    n = 1
                elif mode == "prime":
                    n = min(n, (2, 3, 5, 7, 11, 13)[self.nreads % 6])
                elif mode == "random":
                    n = self._rng.randint(1, n)
                if n < min(size, remaining):
                    self.fs.stat("short_reads")
        s = self.text[self.pos:self.pos + n]
        self.pos += n
        self.fs.stat("reads")
        self.fs.ctx.event("fs", "read", self.path_, size, len(s))
        return s

    def readline(self, size=-1):
        self._check_open()
        if not self.readable():
            raise io.UnsupportedOperation("not readable")
        self._maybe_eio()
        j = self.text.find("\n", self.pos)
        end = len(self.text) if j < 0 else j + 1
        if size is not None and size >= 0:
            end = min(end, self.pos + size)
        s = self.text[self.pos:end]
        self.pos = end
        self.fs.stat("readlines")
        return s

    def __iter__(self):
        return self

    def __next__(self):
        line = self.readline()
        if line == "":
            raise StopIteration
        return line

    def write(self, s):
        self._check_open()
        if self.mode_ == "r":
            raise io.UnsupportedOperation("not writable")
        if not isinstance(s, str):
            raise TypeError("write() argument must be str, not %s" % type(s).__name__)
        for key, err in (("enospc_after", errno.ENOSPC), ("eio_after", errno.EIO)):
            k = self.script.get(key)
            if k is not None and self.accepted + len(s) > int(k):
                room = max(0, int(k) - self.accepted)
                # a short write: the part that fits is accepted, then the error surfaces
                self.pending += s[:room]
                self.accepted += room
                self.fs.stat("%s_fired" % key.split("_")[0])
                self.fs.ctx.event("fs", "fault", key, self.path_, self.accepted)
                raise SimFault(err, "%s (simulated)" % ("No space left on device" if err == errno.ENOSPC else "Input/output error"), self.path_)
        self.pending += s
        self.accepted += len(s)
        self.fs.stat("writes")
        self.fs.ctx.event("fs", "write", self.path_, len(s))
        return len(s)

    def flush(self):
        if self.closed_:
            return
        frac = self.script.get("enospc_at_close")
        if frac is not None and self.mode_ != "r" and self.pending and not getattr(self, "_close_fault_fired", False):
            # a buffered writer on a full device: every write() was accepted into the buffer, the error only surfaces when the
            # buffer is flushed (at the latest by close()); part of the buffer may have reached the device
            self._close_fault_fired = True
            cur = self.fs.files.get(self.path_, "")
            self.fs.files[self.path_] = cur + self.pending[:int(len(self.pending) * float(frac))]
            self.pending = ""
            self.fs.stat("enospc_fired")
            self.fs.stat("errors_at_close")
            self.fs.ctx.event("fs", "fault", "enospc_at_close", self.path_)
            raise SimFault(errno.ENOSPC, "No space left on device (simulated, reported when the buffer was flushed)", self.path_)
        if self.mode_ != "r" and self.pending:
            torn = self.script.get("torn_at")
            cur = self.fs.files.get(self.path_, "")
            if torn is not None:
                room = max(0, int(torn) - len(cur))
                if room < len(self.pending):
                    self.fs.stat("torn_writes")
                cur += self.pending[:room]
            else:
                cur += self.pending
            self.fs.files[self.path_] = cur
            self.pending = ""
            self.fs.ctx.event("fs", "flush", self.path_, len(cur))

    def close(self):
        if self.closed_:
            return
        try:
            self.flush()
        finally:
            # like a real file object: closed even if the final flush failed (the error still propagates)
            self.closed_ = True
            self.fs.stat("closes")
            self.fs.ctx.event("fs", "close", self.path_)

    def __enter__(self):
        self._check_open()
        return self

    def __exit__(self, *a):
        self.close()

    def __del__(self):
        # never let garbage collection order decide durability: an un-closed handle keeps its pending text pending
        pass


# ---------------------------------------------------------------------------------------------------------------
# installation

@contextlib.contextmanager
def sandbox(ctx):
    """Capture stdout/stderr of the system under test, pin the real global generators (so that any use of them that
    bypasses the seam is at least deterministic and shows up as `global_rng_touched`), and undo every patch."""
    old_out, old_err = sys.stdout, sys.stderr
    sys.stdout = ctx.captured
    sys.stderr = io.StringIO()
    seed = int(ctx.spec.get("seed", 0)) if isinstance(ctx.spec, dict) else 0
    _pyrandom.seed(seed)
    np.random.seed(seed % (2 ** 32))
    ctx._g0 = _pyrandom.getstate()
    ctx._np0 = np.random.get_state()[1].tobytes()
    ctx._undo = []
    try:
        yield
    finally:
        for undo in reversed(ctx._undo):
            undo()
        ctx._undo = []
        sys.stdout, sys.stderr = old_out, old_err


_MISSING = object()


def patch(ctx, obj, name, new):
    """setattr with undo at the end of the run (also when the attribute did not exist before)."""
    old = vars(obj).get(name, _MISSING) if hasattr(obj, "__dict__") else getattr(obj, name, _MISSING)

    def undo():
        if old is _MISSING:
            try:
                delattr(obj, name)
            except AttributeError:
                pass
        else:
            setattr(obj, name, old)
    ctx._undo.append(undo)
    setattr(obj, name, new)


def global_rng_touched(ctx):
    return _pyrandom.getstate() != ctx._g0 or np.random.get_state()[1].tobytes() != ctx._np0


def install_random(ctx, script):
    """Install a SimRandom for mofun.mofun.random, mofun.helpers.random and numpy.random.random."""
    import mofun.helpers
    import mofun.mofun
    rng = SimRandom(script, ctx)
    for mod in (mofun.mofun, mofun.helpers):
        if hasattr(mod, "random"):
            patch(ctx, mod, "random", rng)
    patch(ctx, np.random, "random", rng.np_random)

    # tap: learn the vector about to be rotated when the antiparallel draw arrives (observes and forwards)
    for mod in (mofun.mofun, mofun.helpers):
        if hasattr(mod, "quaternion_from_two_vectors"):
            orig = getattr(mod, "quaternion_from_two_vectors")

            def tapped(p1, p2, _orig=orig):
                try:
                    v = np.array(p1, dtype=float)
                    rng.last_v1 = v / np.linalg.norm(v)
                except Exception:
                    rng.last_v1 = None
                return _orig(p1, p2)
            patch(ctx, mod, "quaternion_from_two_vectors", tapped)
    ctx.rng = rng
    return rng


class Tap:
    """Recording wrapper around a module-level callable: observes arguments/results and forwards."""

    def __init__(self, ctx, mod, name):
        self.calls = []
        self.orig = getattr(mod, name)
        tap = self

        def wrapper(*a, **kw):
            rec = {"args": a, "kwargs": kw}
            tap.calls.append(rec)
            try:
                r = tap.orig(*a, **kw)
            except BaseException as e:
                rec["exc"] = e
                raise
            rec["result"] = r
            return r
        wrapper.__wrapped__ = self.orig
        patch(ctx, mod, name, wrapper)


def install_fs(ctx, script=None):
    """SimFS installed as mofun.helpers.open (the path branch of Atoms.load/save for lmpdat/cif/mol):
    helpers.use_or_open looks `open` up in its module globals before builtins."""
    import mofun.helpers
    import builtins
    import mofun.atoms
    fs = SimFS(ctx, script)
    patch(ctx, mofun.helpers, "open", fs.open)
    # ... and, so that the seam does not depend on WHICH open() the library uses for a path, every open of a path under
    # /sim/ is redirected (module globals of mofun.atoms, builtins.open, io.open - pathlib goes through io.open);
    # all other paths reach the real file system untouched
    real_open = builtins.open

    def redirecting_open(file, mode="r", *a, **kw):
        try:
            name = os.fspath(file) if not isinstance(file, int) else None
        except TypeError:
            name = None
        if isinstance(name, str) and name.startswith("/sim/"):
            return fs.open(name, mode)
        return real_open(file, mode, *a, **kw)
    patch(ctx, mofun.atoms, "open", redirecting_open)
    patch(ctx, builtins, "open", redirecting_open)
    patch(ctx, io, "open", redirecting_open)
    ctx.fs = fs
    return fs
