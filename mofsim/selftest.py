"""Self-tests of the machinery: determinism (same seed => same event-log digest across processes, worker counts and hash
seeds) and sensitivity (the corpus of seeded changes / fix-reverting patches must each be caught by the checks named for it)."""
import json
import os
import subprocess
import sys
import time

from . import core


def _digests_pool(pid, tier, seed, n, workers):
    import multiprocessing as mp
    from concurrent.futures import ProcessPoolExecutor
    chunk = max(1, n // (workers * 3))
    chunks = [list(range(i, min(n, i + chunk))) for i in range(0, n, chunk)]
    out = {}
    with ProcessPoolExecutor(max_workers=workers, mp_context=mp.get_context("fork")) as ex:
        for res in ex.map(core._worker_chunk, [(pid, tier, seed, c, 120.0, set()) for c in chunks]):
            for r in res:
                out[r["idx"]] = (r["digest"], r["status"], r["cls"])
    return out


def cmd_digests(pid, n, seed):
    """Runs indices serially in THIS interpreter and prints digests as JSON (used from a fresh interpreter)."""
    out = {}
    for i in range(n):
        r = core.run_index(pid, "quick", seed, i, timeout=120.0)
        out[i] = (r.digest, r.status, r.cls)
    print("DIGESTS " + json.dumps(out))
    return 0


def determinism(args):
    n = args.runs or (int(os.environ.get("VERIF_SELFTEST_N", "0")) or 120)
    seed = int(os.environ.get("VERIF_SEED", "0"))
    props = core.PROPS
    bad = 0
    t0 = time.time()
    for pid in props:
        a = _digests_pool(pid, "quick", seed, n, 16)
        b = _digests_pool(pid, "quick", seed, n, 3)
        env = dict(os.environ, PYTHONHASHSEED="4242")
        p = subprocess.run([sys.executable, "-m", "mofsim", "selftest-digests", "--runs", str(min(n, 40)), "--prop", pid], env=env, capture_output=True, text=True)
        c = {}
        for line in p.stdout.splitlines():
            if line.startswith("DIGESTS "):
                c = {int(k): tuple(v) for k, v in json.loads(line[8:]).items()}
        if not c:
            print("HARNESS-ERROR %s: fresh interpreter produced no digests: %s" % (pid, p.stderr[-400:]))
            bad += 1
            continue
        diff_ab = [i for i in a if a[i] != b.get(i)]
        diff_ac = [i for i in c if tuple(a[i]) != tuple(c[i])]
        status = "ok" if not diff_ab and not diff_ac else "DIVERGED"
        print("%s determinism %s: %d runs x (16 workers, 3 workers), %d runs in a fresh interpreter with another PYTHONHASHSEED; diverging: %s %s"
              % (pid, status, n, len(c), diff_ab[:5], diff_ac[:5]), flush=True)
        if diff_ab or diff_ac:
            bad += 1
    print("selftest-determinism: %d properties, %d diverged, %.0fs" % (len(props), bad, time.time() - t0))
    return 0 if bad == 0 else 2


def seeded(args):
    """Every kept seeded change and every fix-reverting patch must be caught (exit 1 + replay that reproduces) by the checks
    recorded for it; uses scratch copies of /repo outside /repo and /verif."""
    root = core.VERIF_DIR
    jobs = []
    sdir = os.path.join(root, "seeded")
    for name in sorted(os.listdir(sdir)):
        meta = os.path.join(sdir, name, "meta.json")
        if os.path.exists(meta):
            m = json.load(open(meta))
            for pid in m.get("caught_by", []):
                jobs.append((os.path.join(sdir, name, "patch.diff"), pid, "seeded/" + name, m.get("base_commit")))
    kf = json.load(open(os.path.join(root, "known_findings.json")))
    for f in kf["findings"]:
        if f.get("status") == "fixed" and f.get("revert_patch"):
            jobs.append((os.path.join(root, f["revert_patch"]), f["property"], f["revert_patch"], None))
    only = os.environ.get("VERIF_SELFTEST_ONLY")
    missed = 0
    for patch, pid, label, base in jobs:
        if only and only not in label and only != pid:
            continue
        p = subprocess.run([os.path.join(root, "tools", "mutant.sh"), patch, pid, "--tier", "quick"], capture_output=True, text=True,
                           env=dict(os.environ, REPLAY_TOO="1", **({"BASE_COMMIT": base} if base else {})))
        caught = p.returncode == 1 and "VIOLATION property=%s" % pid in p.stdout and "REPLAY-REPRODUCES" in p.stdout
        cls = ""
        for line in p.stdout.splitlines():
            if line.startswith("violation class="):
                cls = line[:110]
        rep = "replay ok" if "REPLAY-REPRODUCES" in p.stdout else ("REPLAY FAILED" if p.returncode == 1 else "")
        print("%-6s %-55s %s %s  %s" % (pid, label, "caught" if caught else "MISSED (rc=%d)" % p.returncode, rep, cls), flush=True)
        if not caught:
            missed += 1
    print("selftest-seeded: %d jobs, %d missed" % (len(jobs), missed))
    return 0 if missed == 0 else 1


def refactors(args):
    """Behaviour-preserving refactorings of the library (written by independent sub-agents, /verif/refactors) must leave every
    check silent: the false-alarm side of the self-test."""
    root = core.VERIF_DIR
    rdir = os.path.join(root, "refactors")
    runs = str(args.runs or 1500)
    only = os.environ.get("VERIF_SELFTEST_ONLY")
    alarms = n = 0
    for name in sorted(f for f in os.listdir(rdir) if f.endswith(".diff")):
        for pid in core.PROPS:
            if only and only not in name and only != pid:
                continue
            p = subprocess.run([os.path.join(root, "tools", "mutant.sh"), os.path.join(rdir, name), pid, "--runs", runs], capture_output=True, text=True)
            n += 1
            if p.returncode != 0:
                alarms += 1
                lines = [l for l in p.stdout.splitlines() if l.startswith("violation class") or "HARNESS" in l or "PATCH" in l]
                print("ALARM %s %s rc=%d %s" % (name, pid, p.returncode, (lines or [""])[0][:250]), flush=True)
        print("refactors/%s done" % name, flush=True)
    print("selftest-refactors: %d (patch, check) pairs, %d alarms" % (n, alarms))
    return 0 if alarms == 0 else 1


def main(target, args, rest):
    if target == "selftest-refactors":
        return refactors(args)
    if target == "selftest-determinism":
        return determinism(args)
    if target == "selftest-digests":
        pid = rest[rest.index("--prop") + 1] if "--prop" in rest else "C01"
        return cmd_digests(pid, args.runs or 20, int(os.environ.get("VERIF_SEED", "0")))
    if target in ("selftest-seeded", "selftest-mutants"):
        return seeded(args)
    print("unknown selftest %s" % target)
    return 2
