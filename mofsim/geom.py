"""Geometric worlds with planted ground truth, and the independent classifier (never calls mofun's own geometry)."""
import itertools
import math

import numpy as np

ELEMENT_POOL = ["C", "N", "O", "H", "F", "S", "Cl", "Br", "Zr", "Cu"]
ATOLS = [0.005, 0.01, 0.02, 0.05, 0.05, 0.1, 0.2, 0.3]


# ---------------------------------------------------------------------------------------------------------------
# linear algebra helpers (independent of mofun)

def random_rotation(rng):
    while True:
        q = np.array([rng.gauss(0, 1) for _ in range(4)])
        n = np.linalg.norm(q)
        if n > 1e-3:
            break
    w, x, y, z = q / n
    return np.array([[1 - 2 * (y * y + z * z), 2 * (x * y - z * w), 2 * (x * z + y * w)],
                     [2 * (x * y + z * w), 1 - 2 * (x * x + z * z), 2 * (y * z - x * w)],
                     [2 * (x * z - y * w), 2 * (y * z + x * w), 1 - 2 * (x * x + y * y)]])


def cube_rotations():
    out = []
    for perm in itertools.permutations(range(3)):
        for signs in itertools.product((1, -1), repeat=3):
            m = np.zeros((3, 3))
            for r, (c, s) in enumerate(zip(perm, signs)):
                m[r, c] = s
            if round(np.linalg.det(m)) == 1:
                out.append(m)
    return out


CUBE_ROTS = cube_rotations()


def rotation_about(axis, angle):
    axis = np.asarray(axis, float)
    axis = axis / np.linalg.norm(axis)
    k = np.array([[0, -axis[2], axis[1]], [axis[2], 0, -axis[0]], [-axis[1], axis[0], 0]])
    return np.eye(3) + math.sin(angle) * k + (1 - math.cos(angle)) * (k @ k)


def kabsch(P, Q):
    """Proper rotation R and translation t minimising sum |R p_i + t - q_i|^2.  Returns R, t, per-atom deviations."""
    P = np.asarray(P, float)
    Q = np.asarray(Q, float)
    pc, qc = P.mean(axis=0), Q.mean(axis=0)
    H = (P - pc).T @ (Q - qc)
    U, S, Vt = np.linalg.svd(H)
    d = np.sign(np.linalg.det(Vt.T @ U.T))
    if d == 0:
        d = 1.0
    D = np.diag([1.0, 1.0, d])
    R = Vt.T @ D @ U.T
    t = qc - R @ pc
    dev = np.linalg.norm((P @ R.T) + t - Q, axis=1)
    return R, t, dev


def frac(pos, cell):
    return np.asarray(pos, float) @ np.linalg.inv(np.asarray(cell, float))


def wrap(pos, cell):
    """Wrap cartesian positions into the cell (fractional coordinates in [0,1))."""
    cell = np.asarray(cell, float)
    f = frac(pos, cell)
    f = f - np.floor(f)
    f[f >= 1.0] = 0.0
    return f @ cell


def perp_widths(cell):
    cell = np.asarray(cell, float)
    vol = abs(np.linalg.det(cell))
    return np.array([vol / np.linalg.norm(np.cross(cell[(i + 1) % 3], cell[(i + 2) % 3])) for i in range(3)])


def lattice_residual(delta, cell):
    """Distance (in fractional units) of delta from the nearest lattice vector, and the rounded integer vector."""
    f = frac(delta, cell)
    n = np.round(f)
    return float(np.max(np.abs(f - n))), n.astype(int)


def min_image_dist(a, b, cell):
    f = frac(np.asarray(a) - np.asarray(b), cell)
    f = f - np.round(f)
    best = np.inf
    cell = np.asarray(cell, float)
    for s in itertools.product((-1, 0, 1), repeat=3):
        best = min(best, np.linalg.norm((f + s) @ cell))
    return best


def diameter(P):
    P = np.asarray(P, float)
    if len(P) < 2:
        return 0.0
    d = P[:, None, :] - P[None, :, :]
    return float(np.sqrt((d ** 2).sum(-1)).max())


# ---------------------------------------------------------------------------------------------------------------
# patterns

def _spread_ok(P, dmin=0.75):
    P = np.asarray(P)
    for i in range(len(P)):
        for j in range(i):
            if np.linalg.norm(P[i] - P[j]) < dmin:
                return False
    return True


def make_pattern(rng, family):
    """Returns (elements, positions ndarray, info dict)."""
    pool = ELEMENT_POOL
    info = {"family": family}
    if family == "single":
        return [rng.choice(pool[:6])], np.zeros((1, 3)), info
    if family == "pair":
        a = rng.choice(pool[:5])
        b = a if rng.random() < 0.4 else rng.choice(pool[:5])
        return [a, b], np.array([[0, 0, 0], [rng.uniform(0.9, 2.6), 0, 0]], float), info
    if family == "collinear":
        n = rng.randint(3, 5)
        xs = [0.0]
        for _ in range(n - 1):
            xs.append(xs[-1] + rng.uniform(0.9, 1.8))
        if rng.random() < 0.5:      # palindromic (symmetric) string such as C-N-N-C
            half = [rng.choice(pool[:4]) for _ in range((n + 1) // 2)]
            els = half + half[::-1][n % 2:]
            gaps = [xs[i + 1] - xs[i] for i in range(n - 1)]
            gaps = [gaps[min(i, n - 2 - i)] for i in range(n - 1)]
            xs = [0.0]
            for g in gaps:
                xs.append(xs[-1] + g)
        else:
            els = [rng.choice(pool[:4]) for _ in range(n)]
        P = np.array([[x, 0, 0] for x in xs], float)
        return els, P, info
    if family in ("planar", "asymmetric"):
        n = rng.randint(3, 7)
        for _ in range(200):
            P = np.array([[rng.uniform(-2.2, 2.2), rng.uniform(-2.2, 2.2),
                           0.0 if family == "planar" else rng.uniform(-2.2, 2.2)] for _ in range(n)])
            if _spread_ok(P):
                break
        k = rng.choice([1, 2, 3, 4])
        els = [rng.choice(pool[:k]) for _ in range(n)]
        return els, P, info
    if family in ("c2", "c3", "c6", "td"):
        r = rng.uniform(1.0, 1.6)
        centre = rng.choice(pool[:3])
        arm = rng.choice(pool[:5])
        if family == "c2":          # bent X-A-X plus optional second shell
            ang = math.radians(rng.uniform(95, 130)) / 2
            P = [[0, 0, 0], [r * math.sin(ang), r * math.cos(ang), 0], [-r * math.sin(ang), r * math.cos(ang), 0]]
            els = [centre, arm, arm]
            if rng.random() < 0.5:
                P += [[2 * r * math.sin(ang), 2.2 * r * math.cos(ang), 0], [-2 * r * math.sin(ang), 2.2 * r * math.cos(ang), 0]]
                els += ["H", "H"]
        elif family == "c3":        # pyramidal AX3
            h = rng.uniform(0.0, 0.6)
            P = [[0, 0, 0]] + [[r * math.cos(a), r * math.sin(a), -h] for a in (0, 2 * math.pi / 3, 4 * math.pi / 3)]
            els = [centre, arm, arm, arm]
        elif family == "c6":        # hexagon, optionally with alternating substituents
            r = 1.39
            P = [[r * math.cos(k * math.pi / 3), r * math.sin(k * math.pi / 3), 0] for k in range(6)]
            els = ["C"] * 6
            if rng.random() < 0.4:
                P = P[:6] + [[2.3 * math.cos(k * math.pi / 3), 2.3 * math.sin(k * math.pi / 3), 0] for k in (0, 2, 4)]
                els = els + ["H"] * 3
        else:                       # tetrahedral AX4
            s = r / math.sqrt(3)
            P = [[0, 0, 0], [s, s, s], [s, -s, -s], [-s, s, -s], [-s, -s, s]]
            els = [centre, arm, arm, arm, arm]
        P = np.array(P, float)
        order = list(range(len(P)))
        rng.shuffle(order)
        return [els[i] for i in order], P[order], info
    if family == "bigring":
        # substituted ring, 10-18 atoms, planar: many atoms so that a single displaced atom hides in an average
        r = 1.39
        ring = [[r * math.cos(k * math.pi / 3), r * math.sin(k * math.pi / 3), 0] for k in range(6)]
        els = ["C"] * 6
        P = list(ring)
        for k in range(6):
            if len(P) >= 18:
                break
            if rng.random() < 0.85:
                rr = rng.uniform(2.3, 2.6)
                P.append([rr * math.cos(k * math.pi / 3), rr * math.sin(k * math.pi / 3), 0])
                els.append(rng.choice(["H", "H", "C", "N", "O", "F"]))
                if els[-1] in ("C", "N") and rng.random() < 0.6:
                    a = k * math.pi / 3 + rng.uniform(-0.5, 0.5)
                    P.append([3.6 * math.cos(a), 3.6 * math.sin(a), 0])
                    els.append(rng.choice(["H", "O", "O"]))
        while len(P) < 10:
            a = rng.uniform(0, 2 * math.pi)
            q = [rng.uniform(3.2, 4.2) * math.cos(a), rng.uniform(3.2, 4.2) * math.sin(a), 0]
            if _spread_ok(np.array(P + [q])):
                P.append(q)
                els.append("H")
        P = np.array(P, float)
        order = list(range(len(P)))
        rng.shuffle(order)
        return [els[i] for i in order], P[order], info
    if family == "chiral":
        # stereocentre with four different substituents (+ optional tail): its mirror image is not superimposable
        s = 1.0
        lens = [rng.uniform(1.0, 1.9) for _ in range(4)]
        dirs = np.array([[1, 1, 1], [1, -1, -1], [-1, 1, -1], [-1, -1, 1]], float) / math.sqrt(3)
        subs = rng.sample(["H", "F", "Cl", "Br", "N", "O"], 4)
        if rng.random() < 0.5:   # same elements, chirality carried only by geometry (bond lengths)
            subs = [subs[0]] * 4
            lens = sorted(rng.sample([1.0, 1.25, 1.5, 1.75, 2.0], 4))
            rng.shuffle(lens)
        P = [[0, 0, 0]] + [list(dirs[i] * lens[i] * s) for i in range(4)]
        els = ["C"] + subs
        P = np.array(P, float)
        order = list(range(len(P)))
        rng.shuffle(order)
        return [els[i] for i in order], P[order], info
    if family == "chain":
        # a planar zigzag chain LISTED IN CHAIN ORDER (a long linker): consecutive pattern atoms are spatial neighbours, so a smooth
        # bend of the whole chain changes every consecutive step only slightly
        n = rng.randint(8, 14)
        step, ang = rng.uniform(1.2, 1.5), math.radians(rng.uniform(25, 40))
        P = np.array([[i * step * math.cos(ang), (i % 2) * step * math.sin(ang), 0.0] for i in range(n)], float)
        els = [rng.choice(pool[:4]) for _ in range(n)]
        if rng.random() < 0.5:
            P, els = P[::-1].copy(), els[::-1]
        return els, P, info
    if family == "bent":
        # nearly, but not exactly, collinear: one atom 0.06-0.4 A off the line through the others (the orientation about the long
        # axis is defined, but only just)
        n = rng.randint(3, 5)
        xs = [0.0]
        for _ in range(n - 1):
            xs.append(xs[-1] + rng.uniform(0.9, 1.8))
        P = np.array([[x, 0, 0] for x in xs], float)
        j = rng.randrange(n)
        a = rng.uniform(0, 2 * math.pi)
        off = rng.uniform(0.06, 0.4)
        P[j, 1], P[j, 2] = off * math.cos(a), off * math.sin(a)
        return [rng.choice(pool[:4]) for _ in range(n)], P, info
    if family == "cs":
        # a centre with two IDENTICAL and two different substituents (CH2FCl): the only symmetry is a mirror plane that swaps the
        # twins - not a rotation - so of the two numberings of an occurrence exactly one is a proper image
        lens = [rng.uniform(1.0, 1.9) for _ in range(3)]
        dirs = np.array([[1, 1, 1], [1, -1, -1], [-1, 1, -1], [-1, -1, 1]], float) / math.sqrt(3)
        twin, x, y = rng.sample(["H", "F", "Cl", "Br", "N", "O"], 3)
        P = [[0, 0, 0], list(dirs[0] * lens[0]), list(dirs[1] * lens[0]), list(dirs[2] * lens[1]), list(dirs[3] * lens[2])]
        els = ["C", twin, twin, x, y]
        if rng.random() < 0.4:
            # twins by GEOMETRY only: same bond length, different elements - the mirror image of the point set is the point set,
            # but no numbering of the mirror image respects the elements
            els[2] = rng.choice([e for e in ["H", "F", "Cl", "Br", "N", "O"] if e not in (twin, x, y)])
        P = np.array(P, float)
        # the twins often come first (the starting atom of a search is the first pattern atom)
        order = [1, 2, 0, 3, 4] if rng.random() < 0.5 else rng.sample(range(5), 5)
        return [els[i] for i in order], P[order], info
    raise ValueError(family)


PATTERN_FAMILIES = ["cs", "bent", "chain", "single", "pair", "collinear", "planar", "planar", "asymmetric", "asymmetric", "c2", "c3", "c6", "td", "chiral", "chiral", "bigring", "bigring"]


def effective_hints(P, hints):
    """The axis/orientation indices a correct implementation ends up using for pattern P and the caller's hints
    (needed only to budget the planted noise, never to judge)."""
    P = np.asarray(P, float)
    n = len(P)
    a1, a2, op = hints if hints else (None, None, None)
    d2 = ((P[:, None, :] - P[None, :, :]) ** 2).sum(-1)
    if a1 is None and a2 is None:
        a1, a2 = np.unravel_index(np.argmax(d2), d2.shape)
    elif a1 is None or a2 is None:
        a1 = a1 if a1 is not None else a2
        a2 = int(np.argmax(d2[a1]))
    if n > 2 and op is None:
        ax = P[a2] - P[a1]
        L = np.linalg.norm(ax)
        if L > 0:
            rel = P - P[a1]
            h = np.linalg.norm(rel - np.outer(rel @ ax / L ** 2, ax), axis=1)
            op = int(np.argmax(h))
        else:
            op = 0
    return int(a1), int(a2), (None if op is None else int(op))


def amplification_K(P, hints, extra=None):
    """A-priori bound on how much three-point anchoring amplifies per-atom noise (DESIGN 3.2).  `extra`: further
    points rigidly attached to the pattern (replacement atoms) whose placement error is to be bounded as well; the
    result is infinite when their placement is not determined by the pattern at all (off-axis point, collinear pattern)."""
    P = np.asarray(P, float)
    n = len(P)
    Q = P if extra is None or len(extra) == 0 else np.vstack([P, np.asarray(extra, float).reshape(-1, 3)])
    if n == 1:
        return 1.0 if len(Q) == 1 or np.linalg.norm(Q - P[0], axis=1).max() < 1e-9 else float("inf")
    a1, a2, op = effective_hints(P, hints)
    ax = P[a2] - P[a1]
    L = float(np.linalg.norm(ax))
    if L <= 0:
        return float("inf")
    # reach from the anchor atom a1 (the lever arm of a tilt error)
    reach = float(np.max(np.linalg.norm(Q - P[a1], axis=1)))
    K = 2.0 + 2.0 * reach / L
    relq = Q - P[a1]
    hq = np.linalg.norm(relq - np.outer(relq @ ax / L ** 2, ax), axis=1)
    hmax = float(hq.max())
    if hmax > 1e-9:
        hop = float(hq[op]) if (n > 2 and op is not None) else 0.0
        if hop <= 1e-9:
            return float("inf")
        K += 2.0 * (1.0 + reach / L) * hmax / hop
    return K


def hints_valid(P, hints, min_off_axis=0.2):
    if not hints:
        return True
    a1, a2, op = effective_hints(P, hints)
    P = np.asarray(P, float)
    if a1 == a2:
        return False
    if len(P) > 2:
        if op in (a1, a2):
            return False
        ax = P[a2] - P[a1]
        L = np.linalg.norm(ax)
        rel = P - P[a1]
        h = np.linalg.norm(rel - np.outer(rel @ ax / L ** 2, ax), axis=1)
        if h.max() > 1e-9 and h[op] < min_off_axis:
            return False
        if h.max() <= 1e-9:
            return True
    return True


# ---------------------------------------------------------------------------------------------------------------
# cells

CELL_FAMILIES = ["cubic", "ortho", "ortho", "tri_pos", "tri_neg", "tri_mixed", "tri_rotated"]


def make_cell(rng, family, min_width, tight_axes, tight=1.02, roomy=(1.6, 3.0), allow_rotated=True):
    """Cell whose perpendicular widths are >= min_width*tight on `tight_axes` and roomier elsewhere."""
    if family in ("tri_rotated", "tri_upper", "tri_left") and not allow_rotated:
        family = "tri_mixed"
    target = [min_width * (tight * rng.uniform(1.0, 1.08) if i in tight_axes else rng.uniform(*roomy)) for i in range(3)]
    if family == "cubic":
        a = max(target)
        return np.eye(3) * a
    if family == "ortho":
        return np.diag(target)
    if family == "ortho_rotated":
        # all angles 90 degrees, but the cell vectors are not along x, y, z (rotated, or axes permuted)
        c = np.diag(target)
        if rng.random() < 0.4:
            perm = rng.choice([[1, 0, 2], [2, 0, 1], [1, 2, 0], [0, 2, 1]])
            return c[perm] if allow_rotated else c
        return c @ random_rotation(rng).T if allow_rotated else c
    sign = {"tri_pos": (1, 1, 1), "tri_neg": (-1, -1, -1)}.get(family)
    if sign is None:
        sign = tuple(rng.choice((-1, 1)) for _ in range(3))
    a, b, c = target
    if family == "tri_tiny":
        # tilt factors that are tiny relative to the box lengths but well above the printed precision (1e-6)
        return np.array([[a, 0, 0], [sign[0] * 10 ** rng.uniform(-5.3, -3), b, 0],
                         [sign[1] * 10 ** rng.uniform(-5.3, -3) if rng.random() < 0.7 else 0.0, sign[2] * 10 ** rng.uniform(-5.3, -3) if rng.random() < 0.7 else 0.0, c]], float)
    if family == "tri_big":
        # LAMMPS-oriented but NOT reduced: tilt factors beyond half the box length are legal for mofun
        hi = 0.95
        xy = sign[0] * rng.uniform(0.3, hi) * a
        xz = sign[1] * rng.uniform(0.3, hi) * a
        yz = sign[2] * rng.uniform(0.3, hi) * b
        return np.array([[a, 0, 0], [xy, b, 0], [xz, yz, c]], float)
    xy = sign[0] * rng.uniform(0.05, 0.5) * a
    xz = sign[1] * rng.uniform(0.05, 0.5) * a
    yz = sign[2] * rng.uniform(0.05, 0.5) * b
    cell = np.array([[a, 0, 0], [xy, b, 0], [xz, yz, c]], float)
    # scale up until perpendicular widths meet the targets
    for _ in range(50):
        w = perp_widths(cell)
        s = max(t / wi for t, wi in zip(target, w))
        if s <= 1.0 + 1e-12:
            break
        cell = cell * (s * 1.0001)
    if family == "tri_rotated":
        cell = cell @ random_rotation(rng).T
    if family == "tri_upper":
        # the same lattice shape listed upper-triangular (vectors and coordinates both in reverse order: an isometry)
        cell = cell[::-1, ::-1].copy()
    if family == "tri_left":
        # two cell vectors listed in the other order: a left-handed triple (negative determinant), same lattice
        i, j = rng.sample(range(3), 2)
        cell = cell.copy()
        cell[[i, j]] = cell[[j, i]]
    return cell


# ---------------------------------------------------------------------------------------------------------------
# independent reference matcher / classifier

def image_offsets(reach):
    r = range(-reach, reach + 1)
    return [np.array(s) for s in itertools.product(r, r, r)]


def enumerate_candidates(cell, els, pos, pat_els, pat_pos, tol_d, reach=1, cap=6000, max_work=400000):
    """All ordered tuples ((unit index, image vector), ...) whose elements equal the pattern's, whose first atom is in
    the home image, whose unit indices are distinct and whose pair distances reproduce the pattern's within tol_d.
    Returns (list of (indices tuple, positions array), complete flag)."""
    cell = np.asarray(cell, float)
    pos = np.asarray(pos, float)
    P = np.asarray(pat_pos, float)
    n = len(P)
    pd = np.sqrt(((P[:, None, :] - P[None, :, :]) ** 2).sum(-1))
    offs = image_offsets(reach)
    img_pos = []
    img_idx = []
    for o in offs:
        shift = o @ cell
        for i in range(len(pos)):
            img_pos.append(pos[i] + shift)
            img_idx.append(i)
    img_pos = np.array(img_pos)
    img_idx = np.array(img_idx)
    img_el = [els[i] for i in img_idx]
    by_el = {}
    for k, e in enumerate(img_el):
        by_el.setdefault(e, []).append(k)
    home = [k for k in range(len(img_idx)) if not offs[k // len(pos)].any()]
    out = []
    complete = True
    work = 0
    for k0 in home:
        if img_el[k0] != pat_els[0]:
            continue
        partial = [[k0]]
        for i in range(1, n):
            cand = by_el.get(pat_els[i], [])
            if not cand:
                partial = []
                break
            cpos = img_pos[cand]
            new = []
            for tup in partial:
                work += len(cand) * (len(tup) + 1)
                if work > max_work:
                    # bounded effort: a world whose candidate space is this large gets no exhaustive reference
                    complete = False
                    break
                ok = np.ones(len(cand), bool)
                for j, kj in enumerate(tup):
                    dj = np.linalg.norm(cpos - img_pos[kj], axis=1)
                    ok &= np.abs(dj - pd[i, j]) <= tol_d
                    if not ok.any():
                        break
                used = {img_idx[k] for k in tup}
                for c in np.nonzero(ok)[0]:
                    kc = cand[c]
                    if img_idx[kc] in used:
                        continue
                    new.append(tup + [kc])
                    if len(new) + len(out) > cap:
                        complete = False
                        break
                if not complete:
                    break
            partial = new
            if not complete or not partial:
                break
        for tup in partial:
            out.append((tuple(int(img_idx[k]) for k in tup), img_pos[tup]))
        if not complete:
            break
    return out, complete


def classify_tuple(pat_pos, X, atol, K):
    """MUST / NOT / GRAY for one ordered candidate (positions X at consistent periodic images)."""
    if len(pat_pos) == 1:
        return "MUST", 0.0, 0.0
    R, t, dev = kabsch(pat_pos, X)
    rms = float(np.sqrt((dev ** 2).mean()))
    mx = float(dev.max())
    if mx <= atol / (2.0 * K):
        return "MUST", mx, rms
    # the implementation accepts per-coordinate deviations up to atol (+1e-5|x|): rms can reach sqrt(3)*atol at most
    if rms > math.sqrt(3.0) * (atol + 1e-5 * (np.abs(X).max() + 1.0)) * 1.0001:
        return "NOT", mx, rms
    return "GRAY", mx, rms


def _rot_u_to_v(u, v):
    """Proper rotation taking unit vector u onto unit vector v (a half turn about any perpendicular axis when antiparallel)."""
    c = float(np.dot(u, v))
    if c > 1.0 - 1e-14:
        return np.eye(3)
    if c < -1.0 + 1e-14:
        perp = np.cross(u, [1.0, 0.0, 0.0])
        if np.linalg.norm(perp) < 1e-3:
            perp = np.cross(u, [0.0, 1.0, 0.0])
        return rotation_about(perp, math.pi)
    ax = np.cross(u, v)
    return rotation_about(ax, math.atan2(float(np.linalg.norm(ax)), c))


def anchored_fit_dev(P, X, a1, a2, op):
    """Three-point anchoring: atom a1 on atom a1, the axis a1->a2 onto the copy's axis, then the turn about that axis which
    brings atom op's off-axis part into line.  Returns the per-atom distances (op=None: axis alignment only)."""
    u = P[a2] - P[a1]
    v = X[a2] - X[a1]
    lu, lv = np.linalg.norm(u), np.linalg.norm(v)
    if lu < 1e-12 or lv < 1e-12:
        return None
    v = v / lv
    Rm = _rot_u_to_v(u / lu, v)
    if op is not None:
        p = Rm @ (P[op] - P[a1])
        x = X[op] - X[a1]
        pp, xp = p - np.dot(p, v) * v, x - np.dot(x, v) * v
        if np.linalg.norm(pp) < 1e-9 or np.linalg.norm(xp) < 1e-9:
            return None
        ang = math.atan2(float(np.dot(np.cross(pp, xp), v)), float(np.dot(pp, xp)))
        Rm = rotation_about(v, ang) @ Rm
    Y = (P - P[a1]) @ Rm.T + X[a1]
    return np.linalg.norm(Y - X, axis=1)


def robust_must(P, X, atol, c=0.8, max_n=8):
    """'Well inside the tolerance' without reference to WHICH anchors an implementation uses: every pair distance agrees within
    c*atol, and under EVERY three-point anchoring (every ordered axis pair, every orientation atom off that axis) every atom
    lands within c*atol of its place.  Any search that anchors on three atoms and accepts up to atol per coordinate, with a
    pair-distance prefilter of atol, must report such a copy whatever hints it was given.  Bounded to small patterns."""
    P = np.asarray(P, float)
    X = np.asarray(X, float)
    n = len(P)
    if n < 2 or n > max_n:
        return False
    lim = c * atol
    dP = np.sqrt(((P[:, None, :] - P[None, :, :]) ** 2).sum(-1))
    dX = np.sqrt(((X[:, None, :] - X[None, :, :]) ** 2).sum(-1))
    if np.abs(dP - dX).max() > lim:
        return False
    for a1 in range(n):
        for a2 in range(n):
            if a1 == a2:
                continue
            ax = P[a2] - P[a1]
            L = np.linalg.norm(ax)
            rel = P - P[a1]
            h = np.linalg.norm(rel - np.outer(rel @ ax / L ** 2, ax), axis=1)
            if n == 2 or h.max() < 1e-6:
                d = anchored_fit_dev(P, X, a1, a2, None)
                if d is None or d.max() > lim:
                    return False
                continue
            if h.max() < 0.2:
                return False          # nearly collinear: the orientation anchor is ill-conditioned, no robust verdict
            for op in range(n):
                if op in (a1, a2) or h[op] < 1e-6:
                    continue
                d = anchored_fit_dev(P, X, a1, a2, op)
                if d is None or d.max() > lim:
                    return False
    return True


def classify_groups(cands, pat_pos, atol, K):
    """Group candidates by their set of unit-cell indices.  A group is MUST if some ordering is MUST, NOT if every
    enumerated ordering is NOT, GRAY otherwise.  Returns {frozenset: (class, best max-dev)}."""
    groups = {}
    for idx, X in cands:
        c, mx, rms = classify_tuple(pat_pos, X, atol, K)
        key = frozenset(idx)
        cur = groups.get(key)
        rank = {"MUST": 2, "GRAY": 1, "NOT": 0}[c]
        if cur is None or rank > cur[2]:
            groups[key] = (c, mx, rank)
    return {k: (v[0], v[1]) for k, v in groups.items()}


def coordwise_fit_ok(pat_pos, X, Rm, atol, slack_rel=1e-5):
    """Is there a translation t with |R p_i + t - x_i| <= atol + slack per coordinate for all i?  (half-range test,
    the same norm numpy.allclose uses, so never stricter than the implementation's own acceptance)."""
    diff = np.asarray(X, float) - np.asarray(pat_pos, float) @ np.asarray(Rm, float).T
    rng_ = diff.max(axis=0) - diff.min(axis=0)
    tol = atol + slack_rel * (np.abs(X).max() + 1.0) + 1e-9
    return bool((rng_ <= 2.0 * tol).all()), float(rng_.max() / 2.0)


def symmetry_maps(els, P, tol=1e-5):
    """All index permutations s with elements preserved for which a proper rotation maps P onto P[s] (pattern's proper
    symmetry group acting on atom indices).  Bounded: patterns <= 9 atoms."""
    P = np.asarray(P, float)
    n = len(P)
    if n > 9:
        return [tuple(range(n))]
    out = []
    pd = np.sqrt(((P[:, None, :] - P[None, :, :]) ** 2).sum(-1))

    def rec(perm):
        i = len(perm)
        if i == n:
            R, t, dev = kabsch(P, P[list(perm)])
            if dev.max() < tol:
                out.append(tuple(perm))
            return
        for c in range(n):
            if c in perm or els[c] != els[i]:
                continue
            if all(abs(pd[i, j] - pd[c, perm[j]]) < 2 * tol for j in range(i)):
                rec(perm + [c])
    rec([])
    return out or [tuple(range(n))]


def plane_normal(P, tol):
    """Unit normal of the best plane through P if all atoms lie within tol of it (also for collinear: any normal), else None."""
    P = np.asarray(P, float)
    if len(P) < 3:
        return None
    c = P - P.mean(axis=0)
    U, S, Vt = np.linalg.svd(c)
    nrm = Vt[-1]
    if np.abs(c @ nrm).max() <= tol:
        return nrm / np.linalg.norm(nrm)
    return None


def minimax_fit(P, X, starts=()):
    """Numerically minimise the largest per-atom distance over proper rigid motions.  Returns the best value FOUND (an upper
    bound on the true min-max; started from the least-squares fit and from every rotation in `starts`)."""
    from scipy.optimize import minimize
    from scipy.spatial.transform import Rotation
    P = np.asarray(P, float)
    X = np.asarray(X, float)
    if len(P) == 1:
        return 0.0
    R0, t0, dev0 = kabsch(P, X)
    best = float(dev0.max())
    cands = [R0] + [np.asarray(r, float) for r in starts]
    pc = P.mean(axis=0)

    def f(v, Rb):
        R = Rotation.from_rotvec(v[:3]).as_matrix() @ Rb
        d = (P - pc) @ R.T + v[3:] - X
        return float(np.sqrt((d ** 2).sum(axis=1)).max())
    for Rb in cands:
        t = (X - (P - pc) @ Rb.T).mean(axis=0)
        v0 = np.concatenate([np.zeros(3), t])
        try:
            r = minimize(f, v0, args=(Rb,), method="Nelder-Mead", options={"xatol": 1e-7, "fatol": 1e-9, "maxiter": 1500, "initial_simplex": None})
            best = min(best, float(r.fun), f(v0, Rb))
        except Exception:
            best = min(best, f(v0, Rb))
    return best
