"""Core of the simulator: seed derivation, event log, run context, worker pool, minimiser, evidence, replay files.

Vocabulary
  spec     JSON-able dict that fully determines one simulated run (world, operations, scripts of the random and
           file seams).  `generate(rng, tier)` makes one from the scheduler PRNG; `execute(spec, ctx)` runs it against
           the real mofun code.  A replay file stores a spec, never a seed to regenerate from.
  ctx      RunContext: event log, reach counters, the seams installed for this run.
  verdict  ok | violation | known (violation listed in known_findings.json) | ood | harness
"""
import contextlib
import hashlib
import importlib
import io
import json
import math
import os
import random
import signal
import sys
import time
import traceback

import numpy as np

VERIF_DIR = os.path.dirname(os.path.dirname(os.path.abspath(__file__)))
REPO_DIR = os.environ.get("VERIF_REPO", "/repo")
OUT_DIR = os.environ.get("VERIF_OUT") or VERIF_DIR      # evidence/ and replays/ go here (scratch dir for mutant runs)

PROPS = ["C01", "C02", "C03", "C04", "C05", "C06", "C07", "C08", "C09", "C10", "C11", "C12", "C13", "C15", "C16", "C20"]


# ---------------------------------------------------------------------------------------------------------------
# canonical JSON

def jsonable(o):
    """Convert numpy scalars/arrays, tuples, sets to plain JSON-able python objects (exact floats)."""
    if isinstance(o, dict):
        return {str(k): jsonable(v) for k, v in o.items()}
    if isinstance(o, (list, tuple)):
        return [jsonable(v) for v in o]
    if isinstance(o, (set, frozenset)):
        return sorted(jsonable(v) for v in o)
    if isinstance(o, np.ndarray):
        return jsonable(o.tolist())
    if isinstance(o, (np.integer,)):
        return int(o)
    if isinstance(o, (np.floating,)):
        return float(o)
    if isinstance(o, (np.bool_,)):
        return bool(o)
    if isinstance(o, (np.str_,)):
        return str(o)
    if isinstance(o, float):
        if math.isnan(o):
            return "NaN"
        if math.isinf(o):
            return "Infinity" if o > 0 else "-Infinity"
        return o
    if o is None or isinstance(o, (bool, int, str)):
        return o
    return repr(o)


def canon(o):
    return json.dumps(jsonable(o), sort_keys=True, separators=(",", ":"))


def derive_seed(*parts):
    h = hashlib.blake2b(canon(list(parts)).encode(), digest_size=8)
    return int.from_bytes(h.digest(), "big")


def short_hash(o):
    return hashlib.blake2b(canon(o).encode(), digest_size=8).hexdigest()


# ---------------------------------------------------------------------------------------------------------------
# verdict plumbing

class Violation(Exception):
    """The system under test broke the property.  cls: stable violation class; site: call site / trigger."""
    def __init__(self, cls, msg="", site="", details=None):
        super().__init__("%s [%s] %s" % (cls, site, msg))
        self.cls, self.msg, self.site, self.details = cls, msg, site, details


class OutOfDomain(Exception):
    """The generated case is outside the property's quantifier: counted, never judged."""


class HarnessError(Exception):
    pass


class RunTimeout(BaseException):
    pass


class EventLog:
    """Append-only log of everything that happened in a run; its digest is the run's fingerprint."""
    KEEP = 400

    def __init__(self):
        self._h = hashlib.blake2b(digest_size=16)
        self.n = 0
        self.head = []

    def add(self, kind, *data):
        s = canon([kind, *data])
        self._h.update(s.encode())
        self._h.update(b"\n")
        self.n += 1
        if len(self.head) < self.KEEP:
            self.head.append(s if len(s) < 300 else s[:297] + "...")

    def digest(self):
        return self._h.hexdigest()


class RunContext:
    def __init__(self, spec):
        self.spec = spec
        self.log = EventLog()
        self.counters = {}
        self.keys = set()          # non-triviality keys reached by this run
        self.notes = {}            # free-form per-run notes for samples
        self.captured = io.StringIO()

    def count(self, name, n=1):
        self.counters[name] = self.counters.get(name, 0) + n

    def key(self, *parts):
        self.keys.add(short_hash(list(parts)))

    def event(self, kind, *data):
        self.log.add(kind, *data)


class Result:
    __slots__ = ("status", "cls", "site", "msg", "digest", "counters", "keys", "nevents", "head", "spec", "tb",
                 "idx", "wall", "orig_spec", "min_steps")

    def __init__(self, **kw):
        for k in self.__slots__:
            setattr(self, k, kw.get(k))

    def as_dict(self):
        return {k: getattr(self, k) for k in self.__slots__}


def load_prop(pid):
    return importlib.import_module("mofsim.props.%s" % pid.lower())


@contextlib.contextmanager
def _alarm(seconds):
    def handler(signum, frame):
        raise RunTimeout()
    if seconds and hasattr(signal, "setitimer"):
        old = signal.signal(signal.SIGALRM, handler)
        signal.setitimer(signal.ITIMER_REAL, seconds)
        try:
            yield
        finally:
            signal.setitimer(signal.ITIMER_REAL, 0)
            signal.signal(signal.SIGALRM, old)
    else:
        yield


def execute_spec(mod, spec, timeout=60.0, keep_spec=False):
    """Run one spec against the real code under the seams.  Pure function of (spec, code)."""
    from . import seams
    ctx = RunContext(spec)
    ctx.event("spec", short_hash(spec))
    t0 = time.time()
    status, cls, site, msg, tb = "ok", None, None, None, None
    gstate = random.getstate()
    npstate = np.random.get_state()
    try:
        with _alarm(timeout), seams.sandbox(ctx):
            try:
                mod.execute(spec, ctx)
            except Violation as v:
                status, cls, site, msg = "violation", v.cls, v.site, v.msg
            except OutOfDomain as e:
                status, msg = "ood", str(e)
    except RunTimeout:
        status, cls, msg = "harness", "timeout", "run exceeded %.0fs" % timeout
    except HarnessError as e:
        status, cls, msg, tb = "harness", "harness-error", str(e), traceback.format_exc()
    except Exception as e:  # anything unclassified escaping the property module is a harness problem
        status, cls, msg, tb = "harness", "exception:%s" % type(e).__name__, str(e), traceback.format_exc()
    finally:
        random.setstate(gstate)
        np.random.set_state(npstate)
    ctx.event("verdict", status, cls, site)
    return Result(status=status, cls=cls, site=site, msg=msg, digest=ctx.log.digest(), counters=ctx.counters,
                  keys=sorted(ctx.keys), nevents=ctx.log.n, head=ctx.log.head, tb=tb, wall=time.time() - t0,
                  spec=spec if (keep_spec or status != "ok") else None)


def run_index(pid, tier, verif_seed, idx, timeout=60.0, keep_spec=False):
    mod = load_prop(pid)
    seed = derive_seed(verif_seed, pid, tier, idx)
    rng = random.Random(seed)
    try:
        spec = mod.generate(rng, tier)
    except Exception as e:
        return Result(status="harness", cls="generate:%s" % type(e).__name__, msg=str(e), tb=traceback.format_exc(),
                      idx=idx, counters={}, keys=[], digest="", nevents=0, head=[])
    spec = jsonable(spec)
    res = execute_spec(mod, spec, timeout=timeout, keep_spec=keep_spec)
    res.idx = idx
    return res


def _one_run(pid, tier, verif_seed, i, timeout, want_samples):
    r = run_index(pid, tier, verif_seed, i, timeout=timeout, keep_spec=(i in want_samples))
    d = r.as_dict()
    if r.status == "ok" and i not in want_samples:
        d["head"] = None
    return d


def in_fresh_child(fn, timeout, what="run"):
    """Run fn() in a forked child and return its (picklable) result, or None if the child ended without one.

    One run = one process image: nothing a run leaves behind in the interpreter (caches, mutated defaults, module state of the
    library under test) can reach another run, so a verdict never depends on which runs happened to share a worker, and a replay
    in a fresh interpreter starts from the same state.  Histories that matter therefore have to be INSIDE a spec."""
    import pickle
    import select
    rfd, wfd = os.pipe()
    child = os.fork()
    if child == 0:
        code = 0
        try:
            os.close(rfd)
            data = pickle.dumps(fn())
            with os.fdopen(wfd, "wb") as f:
                f.write(data)
        except BaseException:
            code = 3
        finally:
            os._exit(code)
    os.close(wfd)
    chunks, deadline = [], time.time() + timeout + 60.0
    with os.fdopen(rfd, "rb") as f:
        while True:
            left = deadline - time.time()
            if left <= 0 or not select.select([f], [], [], left)[0]:
                try:
                    os.kill(child, 9)
                except OSError:
                    pass
                break
            b = os.read(f.fileno(), 1 << 20)
            if not b:
                break
            chunks.append(b)
    try:
        os.waitpid(child, 0)
    except OSError:
        pass
    try:
        return pickle.loads(b"".join(chunks))
    except Exception:
        return None


def _forked_run(pid, tier, verif_seed, i, timeout, want_samples):
    d = in_fresh_child(lambda: _one_run(pid, tier, verif_seed, i, timeout, want_samples), timeout)
    if d is None:
        d = dict(status="harness", cls="worker:child-died", msg="the process of run %d ended without a result" % i, idx=i,
                 counters={}, keys=[], digest="", nevents=0, head=None, spec=None, tb="", site=None, wall=0.0)
    return d


def _worker_chunk(args):
    pid, tier, verif_seed, idxs, timeout, want_samples = args
    fork = os.environ.get("VERIF_FORK_PER_RUN", "1") != "0"
    if fork:
        # import-time state only: what a fresh interpreter has after importing the library (children inherit it instead of
        # importing again)
        for name in ("mofun", "mofun.atoms", "mofun.mofun", "mofun.helpers", "mofun.cli.mofun_cli", "ase.io", "ase.geometry", "CifFile",
                     "scipy.spatial", "scipy.spatial.transform", "mofsim.props.%s" % pid.lower()):
            try:
                importlib.import_module(name)
            except Exception:
                pass
    return [(_forked_run if fork else _one_run)(pid, tier, verif_seed, i, timeout, want_samples) for i in idxs]


# ---------------------------------------------------------------------------------------------------------------
# known findings

def load_known_findings():
    p = os.path.join(VERIF_DIR, "known_findings.json")
    if not os.path.exists(p):
        return []
    with open(p) as f:
        return json.load(f).get("findings", [])


def match_known(pid, cls, site, findings):
    for f in findings:
        if f.get("status") != "open" or f.get("property") != pid:
            continue
        classes = f.get("classes") or [f.get("class")]
        if cls in classes and f.get("site", "") in (site or ""):
            return f
    return None


# ---------------------------------------------------------------------------------------------------------------
# minimiser

def minimise(mod, spec, target_cls, target_site, budget_s=20.0, timeout=60.0):
    """Greedy delta-debugging over the spec using the property module's shrink candidates."""
    t0 = time.time()
    steps = 0
    shrink = getattr(mod, "shrink", None)
    if shrink is None:
        return spec, 0
    improved = True
    while improved and time.time() - t0 < budget_s:
        improved = False
        for cand in shrink(spec):
            if time.time() - t0 > budget_s:
                break
            try:
                cand = jsonable(cand)
                if os.environ.get("VERIF_FORK_PER_RUN", "1") != "0":
                    v = in_fresh_child(lambda: (lambda r: (r.status, r.cls, r.site))(execute_spec(mod, cand, timeout=timeout)), timeout)
                else:
                    v = (lambda r: (r.status, r.cls, r.site))(execute_spec(mod, cand, timeout=timeout))
            except Exception:
                continue
            if v is not None and v[0] == "violation" and v[1] == target_cls and (v[2] or "") == (target_site or ""):
                spec = cand
                steps += 1
                improved = True
                break
    return spec, steps


def write_replay(pid, res, tier, verif_seed, minimised, min_steps):
    d = os.path.join(OUT_DIR, "replays")
    os.makedirs(d, exist_ok=True)
    path = os.path.join(d, "%s-seed%d-run%d.json" % (pid, verif_seed, res["idx"] if res["idx"] is not None else -1))
    with open(path, "w") as f:
        json.dump({"property": pid, "violation": {"class": res["cls"], "site": res["site"], "message": res["msg"]},
                   "provenance": {"VERIF_SEED": verif_seed, "tier": tier, "run_index": res["idx"]},
                   "minimisation_steps": min_steps,
                   "spec": minimised, "spec_unminimised": res["spec"],
                   "event_log_head": res["head"]}, f, indent=1, sort_keys=True)
    return path


# ---------------------------------------------------------------------------------------------------------------
# batch driver

def run_batch(pid, tier, verif_seed, nruns, workers, budget_s, timeout=60.0, progress=True):
    from concurrent.futures import ProcessPoolExecutor, as_completed
    import multiprocessing as mp
    mod = load_prop(pid)
    findings = load_known_findings()
    t0 = time.time()
    chunk = max(1, min(25, nruns // (workers * 4) or 1))
    chunks = [list(range(i, min(nruns, i + chunk))) for i in range(0, nruns, chunk)]
    want_samples = set(range(0, min(nruns, 3)))
    results = []
    stop = False
    stopped_early = None
    ctxmp = mp.get_context("fork")
    with ProcessPoolExecutor(max_workers=workers, mp_context=ctxmp) as ex:
        pending = {}
        it = iter(chunks)

        def submit_next():
            try:
                c = next(it)
            except StopIteration:
                return False
            fut = ex.submit(_worker_chunk, (pid, tier, verif_seed, c, timeout, want_samples))
            pending[fut] = c
            return True

        for _ in range(workers * 2):
            if not submit_next():
                break
        while pending:
            done = None
            for fut in as_completed(list(pending), timeout=timeout * chunk + 120):
                done = fut
                break
            c = pending.pop(done)
            try:
                out = done.result()
            except Exception as e:
                out = [dict(status="harness", cls="worker:%s" % type(e).__name__, msg=str(e), idx=c[0], counters={},
                            keys=[], digest="", nevents=0, head=None, spec=None, tb=traceback.format_exc(), site=None,
                            wall=0.0)]
            results.extend(out)
            if any(r["status"] == "harness" or (r["status"] == "violation" and match_known(pid, r["cls"], r["site"], findings) is None) for r in out):
                stop = True
            if time.time() - t0 > budget_s and not stop:
                stop = True
                stopped_early = "wall budget %.0fs reached" % budget_s
            if not stop:
                submit_next()
    results.sort(key=lambda r: r["idx"])
    return results, stopped_early, time.time() - t0


def summarise(pid, tier, verif_seed, results, stopped_early, wall, mod, extra=None):
    counters = {}
    keys = set()
    digests = set()
    status_counts = {}
    for r in results:
        status_counts[r["status"]] = status_counts.get(r["status"], 0) + 1
        for k, v in (r["counters"] or {}).items():
            counters[k] = counters.get(k, 0) + v
        keys.update(r["keys"] or [])
        if r["digest"]:
            digests.add(r["digest"])
    samples = []
    for r in results:
        if r.get("spec") is not None and r["status"] == "ok" and len(samples) < 2:
            s = {"run_index": r["idx"], "digest": r["digest"], "events": r["nevents"]}
            summ = getattr(mod, "sample_summary", None)
            s["case"] = summ(r["spec"]) if summ else r["spec"]
            s["event_log_head"] = (r["head"] or [])[:25]
            samples.append(s)
    cov = {
        "evaluations": len(results),
        "distinct_nontrivial": len(keys),
        "rule": getattr(mod, "RULE", ""),
        "samples": samples,
        "runs_by_status": status_counts,
        "distinct_event_log_digests": len(digests),
        "reach_counters": dict(sorted(counters.items())),
        "faults_injected": {k[3:]: v for k, v in sorted(counters.items()) if k in ("fs_enospc_fired", "fs_eio_fired", "fs_eio_read_fired", "fs_crashes",
                                                                                  "fs_torn_writes", "fs_short_reads")} or "none (this property has no I/O on its path)",
        "random_decisions_injected": {k[4:]: v for k, v in sorted(counters.items()) if k.startswith("rng_")} or "none (no random decision on this path)",
        "runs_per_hour": int(len(results) / max(wall, 1e-6) * 3600),
        "seeds": "VERIF_SEED=%d; run seed = blake2b(VERIF_SEED, property, tier, run index), run indices 0..%d"
                 % (verif_seed, len(results) - 1),
        "simulated_time": "not applicable (no clock in the system under test)",
        "isolation": ("every run executes in its own forked process image (no interpreter state survives from one run to the next; histories are inside the spec)"
                      if os.environ.get("VERIF_FORK_PER_RUN", "1") != "0" else "runs share worker processes (VERIF_FORK_PER_RUN=0)"),
        "components": getattr(mod, "COMPONENTS", {}),
        "stopped_early": stopped_early,
        "slowest_run": max(({"run_index": r["idx"], "wall_s": round(r.get("wall") or 0.0, 2)} for r in results), key=lambda d: d["wall_s"], default=None),
    }
    if extra:
        cov.update(extra)
    return cov, counters


def write_evidence(pid, tier, verif_seed, coverage, wall, violations, assumptions):
    d = os.path.join(OUT_DIR, "evidence")
    os.makedirs(d, exist_ok=True)
    ev = {"property_id": pid, "tier": tier, "seed": int(verif_seed), "level": "exploration", "coverage": coverage,
          "assumptions": assumptions, "wall_s": round(wall, 2), "violations": int(violations)}
    tmp = os.path.join(d, "%s.json.tmp" % pid)
    with open(tmp, "w") as f:
        json.dump(jsonable(ev), f, indent=1, sort_keys=True)
    os.replace(tmp, os.path.join(d, "%s.json" % pid))
