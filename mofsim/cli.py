"""Command line of the simulator:  python -m mofsim <ID> [--tier quick|thorough] [--replay FILE] [--runs N] ..."""
import argparse
import json
import os
import sys
import time

from . import core


def _assert_repo():
    import mofun
    here = os.path.realpath(os.path.dirname(mofun.__file__))
    want = os.path.realpath(os.path.join(core.REPO_DIR, "mofun"))
    if here != want:
        print("HARNESS-ERROR mofun imported from %s, expected %s" % (here, want))
        sys.exit(2)


def cmd_check(pid, args):
    tier = args.tier or os.environ.get("VERIF_TIER") or "quick"
    verif_seed = int(os.environ.get("VERIF_SEED", "0"))
    workers = int(os.environ.get("VERIF_WORKERS", "0")) or min(16, os.cpu_count() or 1)
    mod = core.load_prop(pid)
    nruns = args.runs or mod.NRUNS[tier]
    budget = float(os.environ.get("VERIF_BUDGET_S", "0")) or {"quick": 600.0, "thorough": 7200.0}[tier]
    timeout = getattr(mod, "RUN_TIMEOUT", 120.0)
    t0 = time.time()
    print("mofsim %s tier=%s VERIF_SEED=%d runs=%d workers=%d" % (pid, tier, verif_seed, nruns, workers), flush=True)
    results, stopped_early, wall = core.run_batch(pid, tier, verif_seed, nruns, workers, budget, timeout=timeout)
    findings = core.load_known_findings()
    viol = [r for r in results if r["status"] == "violation"]
    harness = [r for r in results if r["status"] == "harness"]
    known_hits = {}
    new_viol = []
    for r in viol:
        f = core.match_known(pid, r["cls"], r["site"], findings)
        if f is not None:
            known_hits.setdefault(f["id"], (f, 0))
            known_hits[f["id"]] = (f, known_hits[f["id"]][1] + 1)
            r["status"] = "known-finding"
        else:
            new_viol.append(r)
    extra = {}
    post = getattr(mod, "post_batch", None)
    exit_code = 0
    # dedicated deterministic probes of the listed findings (so that a finding is reported even when the sampled runs
    # steer around its trigger)
    probes = getattr(mod, "known_finding_probes", None)
    if probes:
        for f in findings:
            if f.get("property") == pid and f.get("status") == "open" and f["id"] in probes and f["id"] not in known_hits:
                try:
                    still = probes[f["id"]]()
                except Exception as e:  # a probe that cannot run is a harness problem, not a verdict
                    print("HARNESS-ERROR probe %s: %r" % (f["id"], e))
                    exit_code = 2
                    still = False
                if still:
                    known_hits[f["id"]] = (f, 0)
    for fid, (f, n) in sorted(known_hits.items()):
        print("KNOWN-FINDING: property=%s %s [%s] (%d sampled runs hit it)" % (pid, f["what"], fid, n))
    cov, counters = core.summarise(pid, tier, verif_seed, results, stopped_early, wall, mod, extra)
    cov["known_findings_hit"] = {fid: n for fid, (f, n) in known_hits.items()}
    # reach probes that must not be stuck at zero
    stuck = [k for k in getattr(mod, "MUST_REACH", []) if counters.get(k, 0) == 0]
    if stuck and not new_viol and not harness and len(results) >= min(nruns, 200):
        print("HARNESS-ERROR reach probes stuck at zero: %s" % ", ".join(stuck))
        exit_code = 2
    replay_path = None
    if new_viol:
        first = min(new_viol, key=lambda r: r["idx"])
        minimised, steps = core.minimise(mod, first["spec"], first["cls"], first["site"],
                                         budget_s=float(os.environ.get("VERIF_MINIMISE_S", "20")), timeout=timeout)
        replay_path = core.write_replay(pid, first, tier, verif_seed, minimised, steps)
        cov["first_violation"] = {"class": first["cls"], "site": first["site"], "message": first["msg"], "run_index": first["idx"],
                                  "replay": replay_path, "minimisation_steps": steps}
        print("violation class=%s site=%s run=%d: %s" % (first["cls"], first["site"], first["idx"], first["msg"]))
        by_cls = {}
        for r in new_viol:
            by_cls[r["cls"]] = by_cls.get(r["cls"], 0) + 1
        print("violations by class: %s" % by_cls)
        print("VIOLATION property=%s replay=%s" % (pid, replay_path))
        exit_code = 1
    if harness and exit_code == 0:
        h = harness[0]
        print("HARNESS-ERROR %s run=%s: %s" % (h["cls"], h["idx"], h["msg"]))
        if h.get("tb"):
            print(h["tb"])
        exit_code = 2
    if args.runs and not os.environ.get("VERIF_OUT"):
        # ad-hoc run sizes never overwrite the evidence of the registered commands
        core.OUT_DIR = os.path.join(core.VERIF_DIR, ".work")
    core.write_evidence(pid, tier, verif_seed, cov, time.time() - t0, len(new_viol), getattr(mod, "ASSUMPTIONS", []))
    sc = cov["runs_by_status"]
    print("runs=%d %s distinct_nontrivial=%d wall=%.1fs (%d runs/h)%s" % (len(results), sc, cov["distinct_nontrivial"], wall,
          cov["runs_per_hour"], " STOPPED-EARLY: %s" % stopped_early if stopped_early else ""))
    print("slowest run: %s" % (cov.get("slowest_run"),))
    print("reach: " + ", ".join("%s=%d" % kv for kv in sorted(counters.items())))
    return exit_code


def cmd_replay(pid, path):
    with open(path) as f:
        rep = json.load(f)
    pid = rep.get("property", pid)
    mod = core.load_prop(pid)
    res = core.execute_spec(mod, rep["spec"], timeout=getattr(mod, "RUN_TIMEOUT", 60.0) * 2)
    want = rep.get("violation", {})
    print("replay %s: status=%s class=%s site=%s digest=%s" % (path, res.status, res.cls, res.site, res.digest))
    if res.msg:
        print("  " + str(res.msg))
    if res.status == "violation":
        f = core.match_known(pid, res.cls, res.site, core.load_known_findings())
        if f is not None:
            print("KNOWN-FINDING: property=%s %s [%s]" % (pid, f["what"], f["id"]))
            return 0
        if want.get("class") and want["class"] != res.cls:
            print("note: recorded class was %s" % want["class"])
        print("VIOLATION property=%s replay=%s" % (pid, path))
        return 1
    if res.status == "harness":
        print("HARNESS-ERROR %s: %s" % (res.cls, res.msg))
        if res.tb:
            print(res.tb)
        return 2
    return 0


def main(argv=None):
    ap = argparse.ArgumentParser(prog="check")
    ap.add_argument("target")
    ap.add_argument("--tier", choices=["quick", "thorough"])
    ap.add_argument("--replay")
    ap.add_argument("--runs", type=int)
    ap.add_argument("--index", type=int, help="execute one run index verbosely")
    args, rest = ap.parse_known_args(argv)
    _assert_repo()
    t = args.target
    if t.startswith("selftest"):
        from . import selftest
        return selftest.main(t, args, rest)
    pid = t.upper()
    if pid not in core.PROPS:
        print("unknown property %s" % pid)
        return 2
    if args.replay:
        return cmd_replay(pid, args.replay)
    if args.index is not None:
        tier = args.tier or "quick"
        r = core.run_index(pid, tier, int(os.environ.get("VERIF_SEED", "0")), args.index, keep_spec=True)
        d = r.as_dict()
        spec = d.pop("spec")
        print(json.dumps(core.jsonable(d), indent=1))
        if os.environ.get("VERIF_DUMP_SPEC"):
            print(json.dumps(spec))
        return 0 if r.status in ("ok", "ood") else 1
    return cmd_check(pid, args)
