"""Running the real pattern search under the random seam, and the oracles of C01/C02 (shared by C03..C08)."""
import numpy as np

from . import geom, seams
from .core import Violation, OutOfDomain, HarnessError


def hint_kwargs(hints):
    if not hints:
        return {}
    kw = {}
    for name, v in zip(("axisp1_idx", "axisp2_idx", "opoint_idx"), hints):
        if v is not None:
            kw[name] = int(v)
    return kw


def call_find(ctx, structure, pattern, atol, hints, with_quats=True, site="find_pattern_in_structure"):
    """Real call; any exception on an in-domain input violates 'the search yields a result'."""
    import mofun
    ctx.event("op", "find", len(structure), len(pattern), atol, hints, with_quats)
    try:
        r = mofun.find_pattern_in_structure(structure, pattern, atol=atol, return_positions_and_quats=with_quats,
                                            **hint_kwargs(hints))
    except Exception as e:
        raise Violation("raises:%s" % type(e).__name__, "%s" % e, site=site)
    return r


def matrices(quats):
    out = []
    for q in quats:
        out.append(np.asarray(q.as_matrix(), float))
    return out


def check_domain(spec):
    cell = np.array(spec["cell"], float)
    P = np.array(spec["pattern"]["positions"], float).reshape(-1, 3)
    D = geom.diameter(P)
    w = geom.perp_widths(cell)
    if not (w > D + 2 * spec["atol"]).all():
        raise OutOfDomain("cell width %s not larger than pattern diameter + 2 atol (%g)" % (w, D + 2 * spec["atol"]))
    pos = np.array(spec["positions"], float).reshape(-1, 3)
    if len(pos):
        f = geom.frac(pos, cell)
        if f.min() < -1e-9 or f.max() > 1 + 1e-9:
            raise OutOfDomain("atoms outside the cell")


def oracle_c01(ctx, spec, result, label=""):
    """Every reported match is a genuine rigid-motion image (DESIGN 5/C01)."""
    idxs, positions, quats = result
    cell = np.array(spec["cell"], float)
    pos = np.array(spec["positions"], float).reshape(-1, 3)
    els = spec["elements"]
    pel = spec["pattern"]["elements"]
    P = np.array(spec["pattern"]["positions"], float).reshape(-1, 3)
    atol = spec["atol"]
    n = len(P)
    N = len(els)
    if len(idxs) != len(positions) or len(idxs) != len(quats):
        raise Violation("c01:result-lengths-differ", "%d indices, %d positions, %d rotations" % (len(idxs), len(positions), len(quats)), site="find")
    Rs = matrices(quats)
    for m, tup in enumerate(idxs):
        tup = [int(i) for i in tup]
        if len(tup) != n:
            raise Violation("c01:wrong-tuple-length", "match %s for a %d-atom pattern" % (tup, n), site="find")
        if any(i < 0 or i >= N for i in tup):
            raise Violation("c01:index-out-of-range", "match %s, structure has %d atoms" % (tup, N), site="find")
        if len(set(tup)) != n:
            raise Violation("c01:repeated-atom", "match %s lists an atom twice" % (tup,), site="find")
        if [els[i] for i in tup] != list(pel):
            raise Violation("c01:element-mismatch", "match %s has elements %s, pattern %s" % (tup, [els[i] for i in tup], pel), site="find")
        X = np.asarray(positions[m], float).reshape(-1, 3)
        if X.shape != (n, 3):
            raise Violation("c01:positions-shape", "positions of match %d have shape %s" % (m, X.shape), site="find")
        for a, i in enumerate(tup):
            res, _ = geom.lattice_residual(X[a] - pos[i], cell)
            if res > 1e-6:
                raise Violation("c01:position-not-lattice-image",
                                "match %d atom %d: returned position differs from the stored one by a non-lattice vector (frac residual %.3g)" % (m, i, res), site="find")
        Rm = Rs[m]
        if abs(np.linalg.det(Rm) - 1.0) > 1e-6 or not np.allclose(Rm @ Rm.T, np.eye(3), atol=1e-6):
            raise Violation("c01:rotation-not-proper", "match %d: det=%.6f" % (m, np.linalg.det(Rm)), site="find")
        ok, worst = geom.coordwise_fit_ok(P, X, Rm, atol)
        if not ok:
            # is it at least an image under *some* proper rotation?  (tells a wrong rotation from a wrong match)
            R2, t2, dev = geom.kabsch(P, X)
            rms = float(np.sqrt((dev ** 2).mean()))
            if rms > np.sqrt(3.0) * atol * 1.0001 + 1e-5 * (np.abs(X).max() + 1):
                raise Violation("c01:not-a-rigid-image", "match %s: best proper rotation leaves rms %.4g > sqrt(3)*atol (atol=%g)" % (tup, rms, atol), site="find")
            raise Violation("c01:returned-rotation-does-not-fit", "match %s: returned rotation leaves %.4g > atol=%g (best rms %.4g)" % (tup, worst, atol, rms), site="find")
        ctx.count("matches_checked")
    ctx.event("c01", label, len(idxs))


def oracle_indices_only(ctx, structure, pattern, spec, result, script):
    """Without return_positions_and_quats the same index tuples are returned (same script => same decisions)."""
    ctx.rng.reset(script)
    r2 = call_find(ctx, structure, pattern, spec["atol"], spec["hints"], with_quats=False)
    a = [tuple(int(i) for i in t) for t in result[0]]
    b = [tuple(int(i) for i in t) for t in r2]
    if a != b:
        raise Violation("c01:indices-only-differs", "with positions/quats: %s, without: %s" % (a[:4], b[:4]), site="find")


def reference_groups(spec, cap_atoms=48, cap_pattern=7):
    """Exhaustive independent enumeration + classification, or None when the world is too large."""
    els = spec["elements"]
    P = np.array(spec["pattern"]["positions"], float).reshape(-1, 3)
    if len(els) > cap_atoms or len(P) > cap_pattern or len(els) == 0:
        return None
    cell = np.array(spec["cell"], float)
    atol = spec["atol"]
    D = geom.diameter(P)
    reach = 2 if geom.perp_widths(cell).min() < D + 4.0 * atol else 1
    tol_d = 2.0 * np.sqrt(3.0) * atol * 1.01 + 1e-4
    cands, complete = geom.enumerate_candidates(cell, els, np.array(spec["positions"], float).reshape(-1, 3),
                                                spec["pattern"]["elements"], P, tol_d, reach=reach)
    if not complete:
        return None
    K = geom.amplification_K(P, spec["hints"])
    return geom.classify_groups(cands, P, atol, K)


def planted_must(spec):
    """Planted copies certified MUST by the independent classifier (using the planted index order)."""
    cell = np.array(spec["cell"], float)
    pos = np.array(spec["positions"], float).reshape(-1, 3)
    P = np.array(spec["pattern"]["positions"], float).reshape(-1, 3)
    K = geom.amplification_K(P, spec["hints"])
    out = []
    for p in spec["planted"]:
        if p["kind"] != "copy" or len(p["indices"]) != len(P):
            continue
        X = unwrap_like(pos[p["indices"]], cell)
        c, mx, rms = geom.classify_tuple(P, X, spec["atol"], K)
        if c == "MUST":
            out.append(p)
        elif c == "GRAY" and mx <= 0.8 * spec["atol"] and geom.robust_must(P, X, spec["atol"]):
            out.append(dict(p, robust=True))
    return out


def unwrap_like(X, cell):
    """Bring the atoms of one (compact) group to mutually nearest images: each atom next to the first."""
    X = np.asarray(X, float).copy()
    cell = np.asarray(cell, float)
    for i in range(1, len(X)):
        best, bd = None, np.inf
        f = geom.frac(X[i] - X[0], cell)
        f0 = f - np.round(f)
        for s in geom.image_offsets(1):
            d = np.linalg.norm((f0 + s) @ cell)
            if d < bd:
                bd, best = d, (f0 + s) @ cell
        X[i] = X[0] + best
    return X


def clearly_outside(ctx, spec, result):
    """'Nothing is reported that lies clearly outside the tolerance': for every reported match whose least-squares fit is
    not already within atol, minimise the largest per-atom distance over proper rigid motions (started from the least-squares
    fit AND from the rotation the search itself returned, so the value found is never worse than the implementation's own
    fit); flag only above sqrt(3)*atol, the most a per-coordinate acceptance of atol can mean."""
    if not isinstance(result, tuple):
        return
    idxs, positions, quats = result
    P = np.array(spec["pattern"]["positions"], float).reshape(-1, 3)
    atol = spec["atol"]
    if len(P) < 2:
        return
    for m, tup in enumerate(idxs):
        X = np.asarray(positions[m], float).reshape(-1, 3)
        if X.shape != P.shape:
            continue
        R, t, dev = geom.kabsch(P, X)
        if dev.max() <= atol:
            continue
        try:
            starts = [np.asarray(quats[m].as_matrix(), float)]
        except Exception:
            starts = []
        mm = geom.minimax_fit(P, X, starts=starts)
        ctx.count("minimax_fits")
        if mm > np.sqrt(3.0) * (atol + 1e-5 * (np.abs(X).max() + 1.0)) * 1.01 + 1e-9:
            raise Violation("c02:reported-clearly-outside", "match %s: under every proper rigid motion some atom stays %.4g away from its pattern position (atol %g)"
                            % ([int(i) for i in tup], mm, atol), site="find")


def oracle_c02(ctx, spec, result, label="", refgroups="compute"):
    clearly_outside(ctx, spec, result)
    idxs = result[0] if isinstance(result, tuple) else result
    groups = [frozenset(int(i) for i in t) for t in idxs]
    seen = set()
    for g, t in zip(groups, idxs):
        if g in seen:
            raise Violation("c02:group-reported-twice", "atom group %s appears more than once in %d matches" % (sorted(g), len(idxs)), site="find")
        seen.add(g)
    for p in planted_must(spec):
        ctx.count("planted_must_copies")
        if p.get("robust"):
            ctx.count("planted_must_by_all_anchor_certificate")
        ctx.count("planted_boundary_class_%d" % p["boundary"])
        ctx.count("planted_pose_%s" % p["pose"])
        if frozenset(p["indices"]) not in seen:
            raise Violation("c02:planted-copy-missed",
                            "planted copy on atoms %s (pose %s, crosses %d boundaries, noise %.3g, atol %g) not reported; %d matches"
                            % (p["indices"], p["pose"], p["boundary"], p["eps"] or 0.0, spec["atol"], len(idxs)), site="find")
    if refgroups == "compute":
        refgroups = reference_groups(spec)
    if refgroups is not None:
        ctx.count("worlds_with_exhaustive_reference")
        must = {g for g, (c, mx) in refgroups.items() if c == "MUST"}
        gray = {g for g, (c, mx) in refgroups.items() if c == "GRAY"}
        for g in must:
            if g not in seen:
                raise Violation("c02:occurrence-missed", "atom group %s is an occurrence well inside the tolerance (max dev %.3g, atol %g) but is not reported"
                                % (sorted(g), refgroups[g][1], spec["atol"]), site="find")
        for g in seen:
            if g not in must and g not in gray:
                raise Violation("c02:reported-clearly-outside", "atom group %s is reported but no ordering of it is within tolerance" % (sorted(g),), site="find")
        if not gray:
            ctx.count("worlds_with_exact_count_check")
            if len(idxs) != len(must):
                raise Violation("c02:count-differs", "%d matches reported, %d distinct occurrences exist" % (len(idxs), len(must)), site="find")
        else:
            ctx.count("worlds_with_gray_groups")
    ctx.event("c02", label, len(idxs))
    return refgroups


def world_reach_counters(ctx, spec):
    cell = np.array(spec["cell"], float)
    if not np.allclose(cell, np.diag(np.diag(cell))):
        ctx.count("triclinic_worlds")
        if cell[0, 1] != 0 or cell[0, 2] != 0 or cell[1, 2] != 0:
            ctx.count("rotated_triclinic_worlds")
        elif min(cell[1, 0], cell[2, 0], cell[2, 1]) < 0:
            ctx.count("negative_tilt_worlds")
    else:
        ctx.count("orthorhombic_worlds")
    if spec["meta"].get("tight_axes"):
        ctx.count("tight_cells")
    ctx.count("pattern_family_%s" % spec["meta"].get("family"))
    h = spec.get("hints")
    if h:
        ctx.count("worlds_with_hints")
        if 0 in [x for x in h if x is not None]:
            ctx.count("hint_index_0_used")
    for p in spec["planted"]:
        if p["kind"] != "copy":
            ctx.count("decoy_%s" % p["kind"])
        elif p["boundary"] == 3:
            ctx.count("copies_through_corner")


def reuse_phase(ctx, spec, structure, pattern, which):
    """State left behind by earlier calls must not leak: the SAME Atoms object is edited in place (an atom of a planted copy
    gets another atom type, two atoms swap places) and searched again; the oracles run against the edited world."""
    import copy
    els = list(spec["elements"])
    types = sorted(set(els))
    copies = [p for p in spec["planted"] if p["kind"] == "copy" and len(p["indices"]) == len(spec["pattern"]["elements"])]
    if not copies or len(els) < 2:
        return
    spec2 = copy.deepcopy(spec)
    edits = []
    tel = list(structure.atom_type_elements)
    i = copies[0]["indices"][-1]
    other = [t for t in range(len(tel)) if tel[t] != els[i]]
    if other:
        t = other[spec["seed"] % len(other)]
        structure.atom_types[i] = t                      # in-place edit of a per-atom array
        spec2["elements"][i] = tel[t]
        edits.append("type")
    # swap the places of two atoms of different elements (in-place edit of the position array)
    j = next((k for k in range(len(els)) if spec2["elements"][k] != spec2["elements"][0]), None)
    if j is not None:
        tmp = structure.positions[0].copy()
        structure.positions[0] = structure.positions[j]
        structure.positions[j] = tmp
        spec2["positions"][0], spec2["positions"][j] = spec2["positions"][j], spec2["positions"][0]
        edits.append("swap")
    if not edits:
        return
    for p in spec2["planted"]:
        if p["kind"] == "copy" and (i in p["indices"] or 0 in p["indices"] or (j is not None and j in p["indices"])):
            p["kind"] = "edited"
    ctx.event("reuse", edits)
    ctx.count("reuse_phases")
    ctx.rng.reset(spec["scripts"][0])
    res = call_find(ctx, structure, pattern, spec["atol"], spec["hints"])
    if which in ("c01", "both"):
        oracle_c01(ctx, spec2, res, label="after in-place edits")
    if which in ("c02", "both"):
        oracle_c02(ctx, spec2, res, label="after in-place edits")


def relisted_phase(ctx, spec, structure, which):
    """The same structure OBJECT searched once more for the same pattern with its atoms listed in another order (no hints): whatever
    an earlier search may have remembered on the object - a choice of numbering, an index into a list of candidates - belongs to
    the earlier pattern; the oracles run against the re-listed pattern."""
    import copy
    import random as _r
    from . import worlds
    n = len(spec["pattern"]["elements"])
    if n < 3:
        return
    perm = list(range(n))
    _r.Random(spec["seed"]).shuffle(perm)
    if perm == list(range(n)):
        perm = perm[1:] + perm[:1]
    spec3 = copy.deepcopy(spec)
    spec3["pattern"]["elements"] = [spec["pattern"]["elements"][i] for i in perm]
    spec3["pattern"]["positions"] = [spec["pattern"]["positions"][i] for i in perm]
    spec3["hints"] = None
    for p in spec3["planted"]:
        if len(p["indices"]) == n:
            p["indices"] = [p["indices"][i] for i in perm]
    ctx.count("relisted_pattern_phases")
    for script in spec["scripts"][:2]:
        ctx.rng.reset(script)
        res = call_find(ctx, structure, worlds.build_pattern(spec3["pattern"]), spec["atol"], None)
        if which in ("c01", "both"):
            oracle_c01(ctx, spec3, res, label="pattern re-listed, same object")
        if which in ("c02", "both"):
            oracle_c02(ctx, spec3, res, label="pattern re-listed, same object", refgroups=None)


def warmup(ctx, spec, structure):
    """An earlier search with a SMALLER pattern on the same object (anything cached per object must not shrink what a later,
    larger search sees)."""
    from . import worlds
    pat = spec["pattern"]
    if len(pat["elements"]) < 3:
        return
    sub = {"elements": pat["elements"][:2], "positions": pat["positions"][:2]}
    ctx.rng.reset(spec["scripts"][0])
    call_find(ctx, structure, worlds.build_pattern(sub), spec["atol"], None, with_quats=False)
    ctx.count("warmup_searches")
